/* main() of the native builds of a harness: replay of one counterexample, or the seeded
 * translation-validation loop.  Built with -DHARNESS=<function>. */
#include <stdio.h>
#include <stdlib.h>
#include <stdint.h>
#include <string.h>
void HARNESS(void);
#ifdef VERIF_REAL
/* the real build has no exception/termination model: real exceptions are caught by the wrappers */
int __verif_exc_pending, __verif_aborted, __verif_abort_expected;
#else
extern int __verif_exc_pending, __verif_aborted, __verif_abort_expected;
#endif

#if defined(VERIF_REPLAY)
int main(void) {
  setvbuf(stdout, 0, _IONBF, 0);
  HARNESS();
  printf("REPLAY-OK: no assertion failed\n");
  return 0;
}
#elif defined(VERIF_TV)
#include <setjmp.h>
jmp_buf __tv_jmp;
static uint64_t st;
static uint64_t nxt(void) { st ^= st << 13; st ^= st >> 7; st ^= st << 17; return st; }
static uint64_t h = 1469598103934665603ULL; static unsigned long nlog = 0, nfail = 0, nskip = 0, nwit = 0;
static int verbose = 0;
void __tv_log(const char* what, uint64_t v) {
  for (const char* p = what; *p; p++) { h ^= (uint8_t)*p; h *= 1099511628211ULL; }
  for (int i = 0; i < 8; i++) { h ^= (uint8_t)(v >> (8 * i)); h *= 1099511628211ULL; }
  nlog++;
  if (what[0] == 'F') { nfail++; printf("%s\n", what); }
  if (what[0] == 'W') nwit++;
  if (verbose) printf("%s %llu\n", what, (unsigned long long)v);
}
/* biased fill: small values, zeros, all-ones and uniformly random words, so that the
 * assumptions of the harnesses (valid lengths, in-range indices) are met often enough */
void __tv_fill(void* p, size_t elem, size_t count) {
  uint8_t* b = (uint8_t*)p;
  unsigned mode = (unsigned)(nxt() % 8);
  for (size_t i = 0; i < count; i++) {
    uint64_t v;
    unsigned m = mode < 6 ? mode : (unsigned)(nxt() % 6);
    switch (m) {
      case 0: v = nxt() % 8; break;
      case 1: v = nxt() % 300; break;
      case 2: v = 0; break;
      case 3: v = ~(uint64_t)0 - (nxt() % 3); break;
      case 4: v = nxt() >> (nxt() % 64); break;
      default: v = nxt(); break;
    }
    if (elem <= 8) memcpy(b + i * elem, &v, elem);
    else for (size_t k = 0; k < elem; k++) b[i * elem + k] = (uint8_t)(m == 2 ? 0 : (m == 0 ? nxt() % 4 : nxt()));
  }
}
int main(int argc, char** argv) {
  uint64_t seed = argc > 1 ? strtoull(argv[1], 0, 10) : 1;
  long n = argc > 2 ? atol(argv[2]) : 1000;
  verbose = argc > 3;
  st = seed * 2654435761ULL + 88172645463325252ULL;
  for (long i = 0; i < n; i++) {
    __verif_exc_pending = 0; __verif_aborted = 0; __verif_abort_expected = 0;
    if (setjmp(__tv_jmp) == 0) HARNESS(); else { nskip++; __tv_log("skip", 0); }
  }
  printf("TV iterations=%ld skipped=%lu log_entries=%lu witnesses=%lu assertion_failures=%lu hash=%016llx\n",
         n, nskip, nlog, nwit, nfail, (unsigned long long)h);
  return 0;
}
#endif
