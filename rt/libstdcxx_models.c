/* Models of the out-of-line libstdc++ std::string members (extern template in libstdc++.so, hence absent from the IR).
 * They operate on the REAL object layout { char* _M_p; size_t _M_string_length; union { char _M_local_buf[16]; size_t _M_allocated_capacity; } }
 * so that all inline members present in the IR (size(), data(), push_back fast path, destructor, ...) run unchanged.
 * Written from the libstdc++ 12 sources (basic_string.tcc); part of the trusted base, listed in the evidence. */
#include "verif_rt.h"
#include <stdlib.h>
typedef struct { u8* p; u64 len; union { u8 local[16]; u64 cap; } u; } rt_string;
#define RT_STR_MAX 0x3fffffffffffffffULL
extern int __verif_tid__ZTISt12length_error, __verif_tid__ZTISt11logic_error, __verif_tid__ZTISt12out_of_range, __verif_tid__ZTISt9bad_alloc;
void __verif_throw_std(int tid) { __verif_exc_obj = __verif_exc_buf; __verif_exc_type = tid; __verif_exc_pending = 1; }
/* string buffers up to RT_STR_BLOCK bytes are allocated as blocks of exactly that constant size: a constant-size object is
 * bit-blasted by cbmc instead of going through its (quadratic) array theory.  The buffer belongs to libstdc++'s std::string,
 * whose own bounds discipline is trusted here, so the slack does not weaken any check of xtl code. */
#ifndef RT_STR_BLOCK
#define RT_STR_BLOCK 64
#endif
#ifdef RT_STR_BLOCK_ONLY
/* every string buffer is one constant-size block; a request beyond it fails an assertion (stated bound of the obligation) */
static u8* rt_new(u64 n) { u8* p = (u8*)malloc(RT_STR_BLOCK);
#ifdef __CPROVER__
  __CPROVER_assert(n <= RT_STR_BLOCK, "std::string buffer request exceeds the block size stated for this obligation");
#endif
#else
static u8* rt_new(u64 n) { u8* p = n <= RT_STR_BLOCK ? (u8*)malloc(RT_STR_BLOCK) : (u8*)malloc(n);
#endif
#ifdef __CPROVER__
  __CPROVER_assume(p != 0);
#endif
  return p; }
static u64 rt_capacity(rt_string* s) { return s->p == s->u.local ? 15 : s->u.cap; }

void ext__ZSt19__throw_logic_errorPKc(u8* m) { (void)m; __verif_throw_std(__verif_tid__ZTISt11logic_error); }
void ext__ZSt20__throw_length_errorPKc(u8* m) { (void)m; __verif_throw_std(__verif_tid__ZTISt12length_error); }
void ext__ZSt20__throw_out_of_rangePKc(u8* m) { (void)m; __verif_throw_std(__verif_tid__ZTISt12out_of_range); }
void ext__ZSt24__throw_out_of_range_fmtPKcz(u8* m, ...) { (void)m; __verif_throw_std(__verif_tid__ZTISt12out_of_range); }
void ext__ZSt17__throw_bad_allocv(void) { __verif_throw_std(__verif_tid__ZTISt9bad_alloc); }

/* pointer _M_create(size_type& capacity, size_type old_capacity) */
u8* ext__ZNSt7__cxx1112basic_stringIcSt11char_traitsIcESaIcEE9_M_createERmm(rt_string* s, u64* capacity, u64 old_capacity) {
  (void)s;
  if (*capacity > RT_STR_MAX) { __verif_throw_std(__verif_tid__ZTISt12length_error); return 0; }
  if (*capacity > old_capacity && *capacity < 2 * old_capacity) { *capacity = 2 * old_capacity; if (*capacity > RT_STR_MAX) *capacity = RT_STR_MAX; }
  return rt_new(*capacity + 1);
}
/* void _M_mutate(size_type pos, size_type len1, const char* s, size_type len2): reallocating replace of [pos,pos+len1) by s[0,len2); length is set by the caller */
void ext__ZNSt7__cxx1112basic_stringIcSt11char_traitsIcESaIcEE9_M_mutateEmmPKcm(rt_string* s, u64 pos, u64 len1, u8* src, u64 len2) {
#ifdef RT_STRING_NO_GROW
  /* obligations that bound every std::string by its initial capacity (15 characters in place, or the exact size it was constructed
   * with) state so in their bounds; reaching a reallocation is then reported as a failed assertion, never silently cut */
#ifdef __CPROVER__
  __CPROVER_assert(0, "std::string reallocation reached: outside the stated bound of this obligation");
  __CPROVER_assume(0);
#endif
#endif
  u64 how_much = s->len - pos - len1;
  u64 new_capacity = s->len + len2 - len1;
  u8* r = ext__ZNSt7__cxx1112basic_stringIcSt11char_traitsIcESaIcEE9_M_createERmm(s, &new_capacity, rt_capacity(s));
  if (__verif_exc_pending) return;
  if (pos) __verif_memcpy(r, s->p, pos);
  if (src && len2) __verif_memcpy(r + pos, src, len2);
  if (how_much) __verif_memcpy(r + pos + len2, s->p + pos + len1, how_much);
  if (s->p != s->u.local) free(s->p);
  s->p = r; s->u.cap = new_capacity;
}

/* std::ostringstream::str() const (result slot, this): exception messages are not the subject of any property; the formatting calls
 * themselves are inert stubs and the resulting message is modelled as the empty string (a valid object, so its destructor is harmless) */
void ext__ZNKSt7__cxx1119basic_ostringstreamIcSt11char_traitsIcESaIcEE3strEv(rt_string* ret, u8* self) {
  (void)self; ret->p = ret->u.local; ret->len = 0; ret->u.local[0] = 0;
}
void ext__ZSt28__throw_bad_array_new_lengthv(void) { __verif_throw_std(__verif_tid__ZTISt9bad_alloc); }

/* basic_string& _M_replace(size_type pos, size_type len1, const char* s, size_type len2)  (s does not alias *this in any caller here) */
rt_string* ext__ZNSt7__cxx1112basic_stringIcSt11char_traitsIcESaIcEE10_M_replaceEmmPKcm(rt_string* s, u64 pos, u64 len1, u8* src, u64 len2) {
  u64 old = s->len;
  if (len2 > RT_STR_MAX - (old - len1)) { __verif_throw_std(__verif_tid__ZTISt12length_error); return s; }
  u64 new_size = old + len2 - len1;
  if (new_size <= rt_capacity(s)) {
    u8* p = s->p + pos; u64 how_much = old - pos - len1;
    if (how_much && len1 != len2) __verif_memmove(p + len2, p + len1, how_much);
    if (len2) __verif_memcpy(p, src, len2);
  } else {
    ext__ZNSt7__cxx1112basic_stringIcSt11char_traitsIcESaIcEE9_M_mutateEmmPKcm(s, pos, len1, src, len2);
    if (__verif_exc_pending) return s;
  }
  s->len = new_size; s->p[new_size] = 0;
  return s;
}
/* basic_string& _M_replace_aux(size_type pos, size_type n1, size_type n2, char c) */
rt_string* ext__ZNSt7__cxx1112basic_stringIcSt11char_traitsIcESaIcEE14_M_replace_auxEmmmc(rt_string* s, u64 pos, u64 n1, u64 n2, u8 c) {
  u64 old = s->len;
  if (n2 > RT_STR_MAX - (old - n1)) { __verif_throw_std(__verif_tid__ZTISt12length_error); return s; }
  u64 new_size = old + n2 - n1;
  if (new_size <= rt_capacity(s)) {
    u8* p = s->p + pos; u64 how_much = old - pos - n1;
    if (how_much && n1 != n2) __verif_memmove(p + n2, p + n1, how_much);
  } else {
    ext__ZNSt7__cxx1112basic_stringIcSt11char_traitsIcESaIcEE9_M_mutateEmmPKcm(s, pos, n1, 0, n2);
    if (__verif_exc_pending) return s;
  }
  if (n2) __verif_memset(s->p + pos, c, n2);
  s->len = new_size; s->p[new_size] = 0;
  return s;
}
/* size_type rfind(char c, size_type pos) const noexcept */
u64 ext__ZNKSt7__cxx1112basic_stringIcSt11char_traitsIcESaIcEE5rfindEcm(rt_string* s, u8 c, u64 pos) {
  u64 size = s->len;
  if (size) {
    if (--size > pos) size = pos;
    for (++size; size-- > 0;) if (s->p[size] == c) return size;
  }
  return 0xFFFFFFFFFFFFFFFFULL;
}
/* size_type find_last_of(const char* s, size_type pos, size_type n) const noexcept */
u64 ext__ZNKSt7__cxx1112basic_stringIcSt11char_traitsIcESaIcEE12find_last_ofEPKcmm(rt_string* s, u8* set, u64 pos, u64 n) {
  u64 size = s->len;
  if (size && n) {
    if (--size > pos) size = pos;
    do { for (u64 k = 0; k < n; k++) if (set[k] == s->p[size]) return size; } while (size-- != 0);
  }
  return 0xFFFFFFFFFFFFFFFFULL;
}
extern int __verif_tid__ZTISt17bad_function_call;
void ext__ZSt25__throw_bad_function_callv(void) { __verif_throw_std(__verif_tid__ZTISt17bad_function_call); }
extern int __verif_tid__ZTISt8bad_cast;
void ext___cxa_bad_cast(void) { __verif_throw_std(__verif_tid__ZTISt8bad_cast); }   /* dynamic_cast<T&> failure */
/* int compare(size_type pos, size_type n, const char* s) const   (basic_string.tcc: _M_check, _M_limit, traits::compare over min(rlen, strlen(s)), then the length difference clamped to int) */
u32 ext__ZNKSt7__cxx1112basic_stringIcSt11char_traitsIcESaIcEE7compareEmmPKc(rt_string* s, u64 pos, u64 n, u8* str) {
  if (pos > s->len) { __verif_throw_std(__verif_tid__ZTISt12out_of_range); return 0; }
  u64 rlen = s->len - pos < n ? s->len - pos : n;
  u64 osize = 0; while (str[osize]) osize++;
  u64 len = rlen < osize ? rlen : osize;
  for (u64 i = 0; i < len; i++) if (s->p[pos + i] != str[i]) return s->p[pos + i] < str[i] ? (u32)-1 : 1u;
  int64_t d = (int64_t)(rlen - osize);
  return d > 2147483647LL ? 2147483647u : d < -2147483648LL ? 0x80000000u : (u32)(int32_t)d;
}
