/* Model of the out-of-line red-black tree primitives of libstdc++ (tree.cc, not in the IR): _Rb_tree_increment/decrement, _Rb_tree_insert_and_rebalance,
 * _Rb_tree_rebalance_for_erase on the REAL node layout { color, parent, left, right } and header conventions (header.parent = root, header.left = leftmost,
 * header.right = rightmost).  Written from the libstdc++ 12 sources with the recolouring/rotation part left out: the tree stays a correct binary search tree with
 * correct leftmost/rightmost links, which is all that find/insert/erase/iteration of std::map observe; only the balance (complexity) differs.  Trusted base. */
#include "verif_rt.h"
typedef struct rb_node { u32 color; struct rb_node* parent; struct rb_node* left; struct rb_node* right; } rb_node;
static rb_node* rb_incr(rb_node* x) {
  if (x->right != 0) { x = x->right; while (x->left != 0) x = x->left; }
  else { rb_node* y = x->parent; while (x == y->right) { x = y; y = y->parent; } if (x->right != y) x = y; }
  return x;
}
static rb_node* rb_decr(rb_node* x) {
  if (x->color == 0 /* red */ && x->parent->parent == x) x = x->right;    /* header */
  else if (x->left != 0) { rb_node* y = x->left; while (y->right != 0) y = y->right; x = y; }
  else { rb_node* y = x->parent; while (x == y->left) { x = y; y = y->parent; } x = y; }
  return x;
}
rb_node* ext__ZSt18_Rb_tree_incrementPSt18_Rb_tree_node_base(rb_node* x) { return rb_incr(x); }
rb_node* ext__ZSt18_Rb_tree_incrementPKSt18_Rb_tree_node_base(rb_node* x) { return rb_incr(x); }
rb_node* ext__ZSt18_Rb_tree_decrementPSt18_Rb_tree_node_base(rb_node* x) { return rb_decr(x); }
rb_node* ext__ZSt18_Rb_tree_decrementPKSt18_Rb_tree_node_base(rb_node* x) { return rb_decr(x); }
void ext__ZSt29_Rb_tree_insert_and_rebalancebPSt18_Rb_tree_node_baseS0_RS_(u1 insert_left, rb_node* x, rb_node* p, rb_node* header) {
  x->parent = p; x->left = 0; x->right = 0; x->color = 0;
  if (insert_left) { p->left = x; if (p == header) { header->parent = x; header->right = x; } else if (p == header->left) header->left = x; }
  else { p->right = x; if (p == header->right) header->right = x; }
  header->parent->color = 1;   /* root is black; no rotations (see above) */
}
rb_node* ext__ZSt28_Rb_tree_rebalance_for_erasePSt18_Rb_tree_node_baseRS_(rb_node* z, rb_node* header) {
  rb_node* y = z; rb_node* x = 0;
  if (y->left == 0) x = y->right;
  else if (y->right == 0) x = y->left;
  else { y = y->right; while (y->left != 0) y = y->left; x = y->right; }
  if (y != z) {
    z->left->parent = y; y->left = z->left;
    if (y != z->right) { if (x) x->parent = y->parent; y->parent->left = x; y->right = z->right; z->right->parent = y; }
    if (header->parent == z) header->parent = y; else if (z->parent->left == z) z->parent->left = y; else z->parent->right = y;
    y->parent = z->parent; { u32 c = y->color; y->color = z->color; z->color = c; }
    y = z;
  } else {
    if (x) x->parent = y->parent;
    if (header->parent == z) header->parent = x; else if (z->parent->left == z) z->parent->left = x; else z->parent->right = x;
    if (header->left == z) { if (z->right == 0) header->left = z->parent; else { rb_node* m = x; while (m->left != 0) m = m->left; header->left = m; } }
    if (header->right == z) { if (z->left == 0) header->right = z->parent; else { rb_node* m = x; while (m->right != 0) m = m->right; header->right = m; } }
  }
  return y;
}
