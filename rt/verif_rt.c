/* Runtime of the IR->C translation: exception state, termination, memory/bit intrinsics,
 * and the environment models of DESIGN.md 1.2 (libc, allocation, cxxabi bits).
 * Every function here is part of the trusted base and is listed in the evidence files. */
#include "verif_rt.h"
#include <stdlib.h>
typedef int64_t i64;

int __verif_exc_pending = 0; int __verif_exc_type = 0; u8* __verif_exc_obj = 0; u8 __verif_exc_buf[128];
int __verif_aborted = 0;
int __verif_abort_expected = 0;   /* harness sets this when termination is the expected outcome */

#ifdef __CPROVER__
#define RT_ASSERT(c, m) __CPROVER_assert(c, m)
#define RT_ASSUME(c) __CPROVER_assume(c)
#else
#include <stdio.h>
#define RT_ASSERT(c, m) do { if (!(c)) { printf("RT-FAIL: %s\n", m); fflush(stdout); abort(); } } while (0)
#define RT_ASSUME(c) do { if (!(c)) { printf("RT-ASSUME-FALSE\n"); fflush(stdout); exit(3); } } while (0)
#endif

void __verif_abort(int kind) {
  if (__verif_abort_expected) {
    /* modelled as an exception nobody can catch: every call site returns, no landing pad runs */
    if (!__verif_aborted) __verif_aborted = kind;
    __verif_exc_pending = 1; __verif_exc_type = -99;
    return;
  }
  RT_ASSERT(0, "abort/terminate/assert_fail reached");
  RT_ASSUME(0);
}
void __verif_unreachable(void) { RT_ASSERT(0, "llvm unreachable reached"); RT_ASSUME(0); }
void __verif_divcheck(int ok) { RT_ASSERT(ok, "division by zero"); }

int __verif_select(int n, int* clauses) {
  if (__verif_exc_type == -99) return 0;
  for (int i = 0; i < n; i++) {
    if (clauses[i] == -1) return 1000;
    if (__verif_exc_is_a(__verif_exc_type, clauses[i])) return clauses[i];
  }
  return 0;
}

void __verif_memcpy(u8* d, const u8* s, u64 n) { for (u64 i = 0; i < n; i++) d[i] = s[i]; }
void __verif_memmove(u8* d, const u8* s, u64 n) {
  if ((u64)d <= (u64)s) { for (u64 i = 0; i < n; i++) d[i] = s[i]; }
  else { for (u64 i = n; i > 0; i--) d[i - 1] = s[i - 1]; }
}
void __verif_memset(u8* d, u8 c, u64 n) { for (u64 i = 0; i < n; i++) d[i] = c; }
#define WORDOPS(W, T) \
  void __verif_memset##W(T* d, u8 c, u64 n) { T v = (T)(c * (T)0x0101010101010101ULL); for (u64 i = 0; i < n; i++) d[i] = v; } \
  void __verif_memcpy##W(T* d, const T* s, u64 n) { for (u64 i = 0; i < n; i++) d[i] = s[i]; } \
  void __verif_memmove##W(T* d, const T* s, u64 n) { if ((u64)d <= (u64)s) { for (u64 i = 0; i < n; i++) d[i] = s[i]; } else { for (u64 i = n; i > 0; i--) d[i - 1] = s[i - 1]; } }
WORDOPS(16, u16) WORDOPS(32, u32) WORDOPS(64, u64)

/* ---- bit intrinsics (loop free) ---- */
u64 __verif_ctpop64(u64 x) {
  x = x - ((x >> 1) & 0x5555555555555555ULL);
  x = (x & 0x3333333333333333ULL) + ((x >> 2) & 0x3333333333333333ULL);
  x = (x + (x >> 4)) & 0x0f0f0f0f0f0f0f0fULL;
  x = x + (x >> 8); x = x + (x >> 16); x = x + (x >> 32);
  return x & 0x7f;
}
u32 __verif_ctpop32(u32 x) { return (u32)__verif_ctpop64(x); }
u16 __verif_ctpop16(u16 x) { return (u16)__verif_ctpop64(x); }
u8 __verif_ctpop8(u8 x) { return (u8)__verif_ctpop64(x); }
static u64 smear(u64 x) { x |= x >> 1; x |= x >> 2; x |= x >> 4; x |= x >> 8; x |= x >> 16; x |= x >> 32; return x; }
u64 __verif_ctlz64(u64 x, u1 z) { (void)z; return 64 - __verif_ctpop64(smear(x)); }
u32 __verif_ctlz32(u32 x, u1 z) { (void)z; return 32 - (u32)__verif_ctpop64(smear(x)); }
u16 __verif_ctlz16(u16 x, u1 z) { (void)z; return 16 - (u16)__verif_ctpop64(smear(x)); }
u8 __verif_ctlz8(u8 x, u1 z) { (void)z; return 8 - (u8)__verif_ctpop64(smear(x)); }
u64 __verif_cttz64(u64 x, u1 z) { (void)z; return x ? __verif_ctpop64((x & (0 - x)) - 1) : 64; }
u32 __verif_cttz32(u32 x, u1 z) { (void)z; return x ? (u32)__verif_ctpop64((u64)(x & (0u - x)) - 1) : 32; }
u16 __verif_cttz16(u16 x, u1 z) { (void)z; return x ? (u16)__verif_cttz32(x, 0) : 16; }
u8 __verif_cttz8(u8 x, u1 z) { (void)z; return x ? (u8)__verif_cttz32(x, 0) : 8; }
u16 __verif_bswap16(u16 x) { return (u16)((x >> 8) | (x << 8)); }
u32 __verif_bswap32(u32 x) { return (x >> 24) | ((x >> 8) & 0xff00u) | ((x << 8) & 0xff0000u) | (x << 24); }
u64 __verif_bswap64(u64 x) { return ((u64)__verif_bswap32((u32)x) << 32) | __verif_bswap32((u32)(x >> 32)); }
u8 __verif_fshl8(u8 a, u8 b, u8 c) { c &= 7; return c ? (u8)((a << c) | (b >> (8 - c))) : a; }
u8 __verif_fshr8(u8 a, u8 b, u8 c) { c &= 7; return c ? (u8)((a << (8 - c)) | (b >> c)) : b; }
u16 __verif_fshl16(u16 a, u16 b, u16 c) { c &= 15; return c ? (u16)((a << c) | (b >> (16 - c))) : a; }
u16 __verif_fshr16(u16 a, u16 b, u16 c) { c &= 15; return c ? (u16)((a << (16 - c)) | (b >> c)) : b; }
u32 __verif_fshl32(u32 a, u32 b, u32 c) { c &= 31; return c ? (a << c) | (b >> (32 - c)) : a; }
u64 __verif_fshl64(u64 a, u64 b, u64 c) { c &= 63; return c ? (a << c) | (b >> (64 - c)) : a; }
u32 __verif_fshr32(u32 a, u32 b, u32 c) { c &= 31; return c ? (a << (32 - c)) | (b >> c) : b; }
u64 __verif_fshr64(u64 a, u64 b, u64 c) { c &= 63; return c ? (a << (64 - c)) | (b >> c) : b; }

/* ---- memoising arithmetic: exact (the memoised value IS a*b resp. a/b), only the circuit is shared ---- */
int __verif_memo_miss = 0;
#ifdef __CPROVER__
#define MEMO_SLOTS 2
/* mode 0 (default): small value-keyed memo, used when implementation and reference each perform one or two products.
 * mode 1 "record": every product is computed and appended to a log (the implementation runs in this mode).
 * mode 2 "replay": a product is looked up in the log by its operands (the reference model runs in this mode); a product that
 *        differs from the log entry at the same position fails the "lockstep" assertion, and every other verdict of the run
 *        is only meaningful when that assertion passes; the driver then re-runs the obligation without sharing (-DNO_LOCKSTEP).
 * Either way a value handed out is exactly a*b; what is shared is the multiplier circuit (DESIGN.md 1.5). */
int __verif_seq_mode = 0;
#define SEQ_MAX 40

static u64 sq_a[SEQ_MAX], sq_b[SEQ_MAX], sq_p[SEQ_MAX]; static int sq_n = 0;
static int sq_i = 0;
void __verif_seq(int mode) { __verif_seq_mode = mode; if (mode == 1) sq_n = 0; sq_i = 0; }
u64 nondet_u64(void);
static u64 seq_mul(u64 a, u64 b, int w32) {
  if (__verif_seq_mode == 1) {
    RT_ASSERT(sq_n < SEQ_MAX, "product log full");
    sq_a[sq_n] = a; sq_b[sq_n] = b; sq_p[sq_n] = w32 ? (u64)((u32)a * (u32)b) : a * b; return sq_p[sq_n++];
  }
  /* replay: the k-th product of the reference must be the k-th product of the implementation */
  RT_ASSERT(sq_i < sq_n && ((a == sq_a[sq_i] && b == sq_b[sq_i]) || (a == sq_b[sq_i] && b == sq_a[sq_i])),
            "lockstep: the reference model multiplies the same operands in the same order as the implementation");
  if (sq_i >= sq_n) return nondet_u64();
  return sq_p[sq_i++];
}
static u64 mm_a[MEMO_SLOTS], mm_b[MEMO_SLOTS], mm_p[MEMO_SLOTS]; static int mm_n = 0;
u64 __verif_mul64(u64 a, u64 b) {
  if (__verif_seq_mode) return seq_mul(a, b, 0);
  for (int i = 0; i < MEMO_SLOTS; i++)
    if (i < mm_n && ((a == mm_a[i] && b == mm_b[i]) || (a == mm_b[i] && b == mm_a[i]))) return mm_p[i];
  if (mm_n < MEMO_SLOTS) { mm_a[mm_n] = a; mm_b[mm_n] = b; mm_p[mm_n] = a * b; return mm_p[mm_n++]; }
  __verif_memo_miss++;
  return a * b;
}
static u32 m3_a[MEMO_SLOTS], m3_b[MEMO_SLOTS], m3_p[MEMO_SLOTS]; static int m3_n = 0;
u32 __verif_mul32(u32 a, u32 b) {
  if (__verif_seq_mode) return (u32)seq_mul(a, b, 1);
  for (int i = 0; i < MEMO_SLOTS; i++)
    if (i < m3_n && ((a == m3_a[i] && b == m3_b[i]) || (a == m3_b[i] && b == m3_a[i]))) return m3_p[i];
  if (m3_n < MEMO_SLOTS) { m3_a[m3_n] = a; m3_b[m3_n] = b; m3_p[m3_n] = a * b; return m3_p[m3_n++]; }
  __verif_memo_miss++;
  return a * b;
}
static u64 dm_a[MEMO_SLOTS], dm_b[MEMO_SLOTS], dm_q[MEMO_SLOTS], dm_r[MEMO_SLOTS]; static int dm_n = 0;
static int divmemo(u64 a, u64 b) {
  for (int i = 0; i < MEMO_SLOTS; i++) if (i < dm_n && a == dm_a[i] && b == dm_b[i]) return i;
  if (dm_n < MEMO_SLOTS) { dm_a[dm_n] = a; dm_b[dm_n] = b; dm_q[dm_n] = a / b; dm_r[dm_n] = a - dm_q[dm_n] * b; return dm_n++; }
  __verif_memo_miss++;
  return -1;
}
u64 __verif_udiv64(u64 a, u64 b) { int i = divmemo(a, b); return i >= 0 ? dm_q[i] : a / b; }
u64 __verif_urem64(u64 a, u64 b) { int i = divmemo(a, b); return i >= 0 ? dm_r[i] : a % b; }
static u32 sd_a[MEMO_SLOTS], sd_b[MEMO_SLOTS], sd_q[MEMO_SLOTS], sd_r[MEMO_SLOTS]; static int sd_n = 0;
static int sdivmemo(u32 a, u32 b) {   /* C semantics of int32 division (truncation); INT_MIN / -1 wraps */
  for (int i = 0; i < MEMO_SLOTS; i++) if (i < sd_n && a == sd_a[i] && b == sd_b[i]) return i;
  if (sd_n < MEMO_SLOTS) { sd_a[sd_n] = a; sd_b[sd_n] = b;
    if (a == 0x80000000u && b == 0xffffffffu) { sd_q[sd_n] = a; sd_r[sd_n] = 0; }
    else { sd_q[sd_n] = (u32)((int32_t)a / (int32_t)b); sd_r[sd_n] = a - sd_q[sd_n] * b; }
    return sd_n++; }
  __verif_memo_miss++;
  return -1;
}
u32 __verif_sdiv32(u32 a, u32 b) { int i = sdivmemo(a, b); return i >= 0 ? sd_q[i] : (u32)((int32_t)a / (int32_t)b); }
u32 __verif_srem32(u32 a, u32 b) { int i = sdivmemo(a, b); return i >= 0 ? sd_r[i] : (u32)((int32_t)a % (int32_t)b); }
u32 __verif_udiv32(u32 a, u32 b) { return (u32)__verif_udiv64(a, b); }
u32 __verif_urem32(u32 a, u32 b) { return (u32)__verif_urem64(a, b); }
#else
int __verif_seq_mode = 0;
void __verif_seq(int mode) { (void)mode; }
u64 __verif_mul64(u64 a, u64 b) { return a * b; }
u32 __verif_mul32(u32 a, u32 b) { return a * b; }
u64 __verif_udiv64(u64 a, u64 b) { return a / b; }
u64 __verif_urem64(u64 a, u64 b) { return a % b; }
u32 __verif_udiv32(u32 a, u32 b) { return a / b; }
u32 __verif_sdiv32(u32 a, u32 b) { return (a == 0x80000000u && b == 0xffffffffu) ? a : (u32)((int32_t)a / (int32_t)b); }
u32 __verif_srem32(u32 a, u32 b) { return (a == 0x80000000u && b == 0xffffffffu) ? 0 : (u32)((int32_t)a % (int32_t)b); }
u32 __verif_urem32(u32 a, u32 b) { return a % b; }
#endif

float __verif_d2f(double x) {
  if (x != x) { u64 b = __verif_bitcast(double, u64, x); u32 r = (u32)(b >> 32 & 0x80000000u) | 0x7FC00000u | (u32)((b >> 29) & 0x3FFFFF); return __verif_bitcast(u32, float, r); }
  return (float)x;
}
double __verif_f2d(float x) {
  if (x != x) { u32 b = __verif_bitcast(float, u32, x); u64 r = ((u64)(b & 0x80000000u) << 32) | 0x7FF8000000000000ULL | ((u64)(b & 0x3FFFFF) << 29); return __verif_bitcast(u64, double, r); }
  return (double)x;
}

/* ---- floating-point helpers on bit patterns (IEEE 754 binary32/binary64) ---- */
#define FB32(x) __verif_bitcast(float, u32, x)
#define BF32(b) __verif_bitcast(u32, float, (u32)(b))
#define FB64(x) __verif_bitcast(double, u64, x)
#define BF64(b) __verif_bitcast(u64, double, (u64)(b))
float __verif_fabs32(float x) { return BF32(FB32(x) & 0x7FFFFFFFu); }
double __verif_fabs64(double x) { return BF64(FB64(x) & 0x7FFFFFFFFFFFFFFFULL); }
float __verif_copysign32(float x, float y) { return BF32((FB32(x) & 0x7FFFFFFFu) | (FB32(y) & 0x80000000u)); }
double __verif_copysign64(double x, double y) { return BF64((FB64(x) & 0x7FFFFFFFFFFFFFFFULL) | (FB64(y) & 0x8000000000000000ULL)); }
/* maxnum/minnum (fmax/fmin): a NaN operand is ignored; comparison on the sign-magnitude order of the bit patterns */
static int lt32(u32 a, u32 b) { int sa = a >> 31, sb = b >> 31; if ((a | b) << 1 == 0) return 0; if (sa != sb) return sa; return sa ? a > b : a < b; }
static int lt64(u64 a, u64 b) { int sa = (int)(a >> 63), sb = (int)(b >> 63); if ((a | b) << 1 == 0) return 0; if (sa != sb) return sa; return sa ? a > b : a < b; }
#define SNAN32(a) ((((a) & 0x7FFFFFFFu) > 0x7F800000u) && !((a) & 0x00400000u))
#define SNAN64(a) ((((a) << 1) > 0xFFE0000000000000ULL) && !((a) & 0x0008000000000000ULL))
/* glibc: a signaling NaN operand makes the result a (quiet) NaN; a quiet NaN operand is ignored */
float __verif_maxnum32(float x, float y) { u32 a = FB32(x), b = FB32(y); if (SNAN32(a) || SNAN32(b)) return BF32((SNAN32(a) ? a : b) | 0x00400000u); if ((a & 0x7FFFFFFFu) > 0x7F800000u) return y; if ((b & 0x7FFFFFFFu) > 0x7F800000u) return x; return lt32(a, b) ? y : x; }
float __verif_minnum32(float x, float y) { u32 a = FB32(x), b = FB32(y); if (SNAN32(a) || SNAN32(b)) return BF32((SNAN32(a) ? a : b) | 0x00400000u); if ((a & 0x7FFFFFFFu) > 0x7F800000u) return y; if ((b & 0x7FFFFFFFu) > 0x7F800000u) return x; return lt32(b, a) ? y : x; }
double __verif_maxnum64(double x, double y) { u64 a = FB64(x), b = FB64(y); if (SNAN64(a) || SNAN64(b)) return BF64((SNAN64(a) ? a : b) | 0x0008000000000000ULL); if ((a << 1) > 0xFFE0000000000000ULL) return y; if ((b << 1) > 0xFFE0000000000000ULL) return x; return lt64(a, b) ? y : x; }
double __verif_minnum64(double x, double y) { u64 a = FB64(x), b = FB64(y); if (SNAN64(a) || SNAN64(b)) return BF64((SNAN64(a) ? a : b) | 0x0008000000000000ULL); if ((a << 1) > 0xFFE0000000000000ULL) return y; if ((b << 1) > 0xFFE0000000000000ULL) return x; return lt64(b, a) ? y : x; }
/* memoised floating-point operations: exact (the memoised value IS the IEEE result of that operation on those bit patterns);
 * equivalence of an implementation with a reference formula is then decided on shared adder/multiplier/divider circuits */
#ifdef __CPROVER__
#define FP_SLOTS 24
static int f3_op[FP_SLOTS]; static u32 f3_a[FP_SLOTS], f3_b[FP_SLOTS]; static float f3_r[FP_SLOTS]; static int f3_n = 0;
float __verif_fop32(int op, float a, float b) {
  u32 x = FB32(a), y = FB32(b);
  for (int i = 0; i < FP_SLOTS; i++)
    if (i < f3_n && f3_op[i] == op && ((f3_a[i] == x && f3_b[i] == y) || ((op == 0 || op == 2) && f3_a[i] == y && f3_b[i] == x))) return f3_r[i];
  float r = op == 0 ? a + b : op == 1 ? a - b : op == 2 ? a * b : a / b;
  if (f3_n < FP_SLOTS) { f3_op[f3_n] = op; f3_a[f3_n] = x; f3_b[f3_n] = y; f3_r[f3_n] = r; f3_n++; }
  return r;
}
static int f6_op[FP_SLOTS]; static u64 f6_a[FP_SLOTS], f6_b[FP_SLOTS]; static double f6_r[FP_SLOTS]; static int f6_n = 0;
double __verif_fop64(int op, double a, double b) {
  u64 x = FB64(a), y = FB64(b);
  for (int i = 0; i < FP_SLOTS; i++)
    if (i < f6_n && f6_op[i] == op && ((f6_a[i] == x && f6_b[i] == y) || ((op == 0 || op == 2) && f6_a[i] == y && f6_b[i] == x))) return f6_r[i];
  double r = op == 0 ? a + b : op == 1 ? a - b : op == 2 ? a * b : a / b;
  if (f6_n < FP_SLOTS) { f6_op[f6_n] = op; f6_a[f6_n] = x; f6_b[f6_n] = y; f6_r[f6_n] = r; f6_n++; }
  return r;
}
#else
float __verif_fop32(int op, float a, float b) { return op == 0 ? a + b : op == 1 ? a - b : op == 2 ? a * b : a / b; }
double __verif_fop64(int op, double a, double b) { return op == 0 ? a + b : op == 1 ? a - b : op == 2 ? a * b : a / b; }
#endif
/* logb: unbiased exponent as a floating value; +-0 -> -inf, +-inf -> +inf, NaN -> NaN (C99 7.12.6.11, F.9.3.11) */
float ext_logbf(float x) {
  u32 b = FB32(x) & 0x7FFFFFFFu; if (b > 0x7F800000u) return x; if (b == 0x7F800000u) return BF32(0x7F800000u); if (b == 0) return BF32(0xFF800000u);
  int e = (int)(b >> 23) - 127;
  if ((b >> 23) == 0) { u32 m = b; e = -126; for (int i = 0; i < 23; i++) if (!(m & 0x400000u)) { m <<= 1; e--; } e--; }
  return (float)e;
}
double ext_logb(double x) {
  u64 b = FB64(x) & 0x7FFFFFFFFFFFFFFFULL; if (b > 0x7FF0000000000000ULL) return x; if (b == 0x7FF0000000000000ULL) return BF64(0x7FF0000000000000ULL); if (b == 0) return BF64(0xFFF0000000000000ULL);
  int e = (int)(b >> 52) - 1023;
  if ((b >> 52) == 0) { u64 m = b; e = -1022; for (int i = 0; i < 52; i++) if (!(m & 0x8000000000000ULL)) { m <<= 1; e--; } e--; }
  return (double)e;
}
/* scalbn: x * 2^n correctly rounded (round to nearest even), on the bit pattern: one rounding, overflow to infinity, gradual underflow */
static u64 rt_scalb(u64 sign, u64 mant, i64 e, int mbits, int emax) {
  /* value = mant * 2^(e - mbits) with mant in [2^mbits, 2^(mbits+1)) ; result packed as sign | exponent field | fraction (without sign shift) */
  if (e > emax) return sign | ((u64)(2 * emax + 1) << mbits);                  /* overflow -> inf */
  i64 emin = 1 - emax;
  if (e >= emin) return sign | ((u64)(e + emax) << mbits) | (mant & (((u64)1 << mbits) - 1));
  i64 sh = emin - e;                                                             /* subnormal result: shift right by sh with RNE */
  if (sh > mbits + 1) return sign;
  u64 q = mant >> sh, rem = mant & (((u64)1 << sh) - 1), half = (u64)1 << (sh - 1);
  if (rem > half || (rem == half && (q & 1))) q++;
  return sign | q;                                                               /* a carry into the exponent field gives the smallest normal */
}
float ext_scalbnf(float x, u32 n_) {
  int n = (int)n_; u32 b = FB32(x); u32 s = b & 0x80000000u, a = b & 0x7FFFFFFFu;
  if (a >= 0x7F800000u || a == 0) return x;
  i64 e = (i64)(a >> 23) - 127; u64 m = (a & 0x7FFFFFu) | 0x800000u;
  if ((a >> 23) == 0) { m = a; e = -126; for (int i = 0; i < 23; i++) if (!(m & 0x800000u)) { m <<= 1; e--; } }
  if (n > 400) n = 400; if (n < -400) n = -400;
  return BF32((u32)rt_scalb(s, m, e + n, 23, 127));
}
double ext_scalbn(double x, u32 n_) {
  int n = (int)n_; u64 b = FB64(x); u64 s = b & 0x8000000000000000ULL, a = b & 0x7FFFFFFFFFFFFFFFULL;
  if (a >= 0x7FF0000000000000ULL || a == 0) return x;
  i64 e = (i64)(a >> 52) - 1023; u64 m = (a & 0xFFFFFFFFFFFFFULL) | 0x10000000000000ULL;
  if ((a >> 52) == 0) { m = a; e = -1022; for (int i = 0; i < 52; i++) if (!(m & 0x10000000000000ULL)) { m <<= 1; e--; } }
  if (n > 3000) n = 3000; if (n < -3000) n = -3000;
  return BF64(rt_scalb(s, m, e + n, 52, 1023));
}

/* ---- libc models (ISO C semantics, bit exact) ---- */
u8* ext_memchr(u8* p, u32 c, u64 n) { for (u64 i = 0; i < n; i++) if (p[i] == (u8)c) return p + i; return 0; }
u32 ext_memcmp(u8* a, u8* b, u64 n) { for (u64 i = 0; i < n; i++) if (a[i] != b[i]) return a[i] < b[i] ? (u32)-1 : 1u; return 0; }
u32 ext_bcmp(u8* a, u8* b, u64 n) { for (u64 i = 0; i < n; i++) if (a[i] != b[i]) return 1u; return 0; }
u64 ext_strlen(u8* s) { u64 i = 0; while (s[i]) i++; return i; }
u32 ext_strcmp(u8* a, u8* b) { u64 i = 0; while (a[i] && a[i] == b[i]) i++; return a[i] == b[i] ? 0 : (a[i] < b[i] ? (u32)-1 : 1u); }
u32* ext_wmemcpy(u32* d, u32* s, u64 n) { for (u64 i = 0; i < n; i++) d[i] = s[i]; return d; }
u32* ext_wmemmove(u32* d, u32* s, u64 n) {
  if ((u64)d <= (u64)s) { for (u64 i = 0; i < n; i++) d[i] = s[i]; }
  else { for (u64 i = n; i > 0; i--) d[i - 1] = s[i - 1]; }
  return d;
}
u32* ext_wmemset(u32* d, u32 c, u64 n) { for (u64 i = 0; i < n; i++) d[i] = c; return d; }
u32* ext_wmemchr(u32* p, u32 c, u64 n) { for (u64 i = 0; i < n; i++) if (p[i] == c) return p + i; return 0; }
u32 ext_wmemcmp(u32* a, u32* b, u64 n) {
  for (u64 i = 0; i < n; i++) if (a[i] != b[i]) return (int32_t)a[i] < (int32_t)b[i] ? (u32)-1 : 1u;
  return 0;
}
u64 ext_wcslen(u32* s) { u64 i = 0; while (s[i]) i++; return i; }

/* ---- allocation: operator new never fails (allocation failure is outside every claim) ---- */
/* exact-size allocation.  With -DRT_ALLOC_UNIT=u -DRT_ALLOC_MAXK=k (obligations over containers of at most k elements of u bytes)
 * every request must be one of 0, u, 2u, ..., k*u bytes and is served by a malloc of that CONSTANT size: constant-size objects are
 * bit-blasted, symbolic-size ones go through cbmc's array theory (which did not terminate on vector reallocation paths).
 * The object is still exactly n bytes, so bounds checks lose nothing; a request outside the list fails an assertion. */
static u8* rt_alloc(u64 n) {
  u8* p;
#if defined(RT_ALLOC_UNIT) && defined(__CPROVER__)
  p = 0;
  if (n == 0) p = (u8*)malloc(1);
  for (u64 k = 1; k <= RT_ALLOC_MAXK; k++) if (n == k * RT_ALLOC_UNIT) p = (u8*)malloc(k * RT_ALLOC_UNIT);
  RT_ASSERT(p != 0 || n > RT_ALLOC_MAXK * RT_ALLOC_UNIT || n % RT_ALLOC_UNIT != 0, "allocation");
  if (p == 0) { RT_ASSERT(0, "allocation size outside the bound stated for this obligation"); RT_ASSUME(0); }
#else
  p = (u8*)malloc(n ? n : 1);
#endif
  RT_ASSUME(p != 0); return p;
}
u8* __verif_alloc_exact(u64 n) { return rt_alloc(n); }
u8* ext__Znwm(u64 n) { return rt_alloc(n); }
u8* ext__Znam(u64 n) { return rt_alloc(n); }
void ext__ZdlPv(u8* p) { free(p); }
void ext__ZdaPv(u8* p) { free(p); }
void ext__ZdlPvm(u8* p, u64 n) { (void)n; free(p); }
void ext__ZdaPvm(u8* p, u64 n) { (void)n; free(p); }

/* ---- cxxabi odds and ends ---- */
u32 ext___cxa_guard_acquire(u64* g) { return *(u8*)g == 0; }
void ext___cxa_guard_release(u64* g) { *(u8*)g = 1; }
void ext___cxa_guard_abort(u64* g) { (void)g; }
void ext___cxa_pure_virtual(void) { __verif_abort(4); }
