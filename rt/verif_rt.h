/* Runtime interface of the IR->C translation (included by every generated file and by rt/*.c). */
#ifndef VERIF_RT_H
#define VERIF_RT_H
#include <stdint.h>
#include <stddef.h>
typedef uint8_t u1; typedef uint8_t u8; typedef uint16_t u16; typedef uint32_t u32; typedef uint64_t u64;
typedef unsigned __int128 u128;

/* --- C++ exception model (DESIGN.md 1.1) --- */
extern int __verif_exc_pending; extern int __verif_exc_type; extern u8* __verif_exc_obj;
extern u8 __verif_exc_buf[128];
extern int __verif_aborted;
int  __verif_exc_is_a(int thrown, int caught);   /* generated per module from its type_info objects */
int  __verif_select(int n, int* clauses);
void __verif_abort(int kind);                     /* 1 assert_fail, 2 terminate/abort, 3 trap, 4 pure virtual */
void __verif_unreachable(void);
void __verif_divcheck(int ok);
#ifdef __CPROVER__
static inline uint64_t __verif_ptrdiff(uint8_t* a, uint8_t* b) { return __CPROVER_same_object(a, b) ? (uint64_t)(__CPROVER_POINTER_OFFSET(a) - __CPROVER_POINTER_OFFSET(b)) : (uint64_t)a - (uint64_t)b; }
#else
static inline uint64_t __verif_ptrdiff(uint8_t* a, uint8_t* b) { return (uint64_t)a - (uint64_t)b; }
#endif

/* --- memory intrinsics: bounded byte loops (trip count covered by --unwinding-assertions) --- */
void __verif_memcpy(u8* d, const u8* s, u64 n);
void __verif_memmove(u8* d, const u8* s, u64 n);
void __verif_memset(u8* d, u8 c, u64 n);
/* word-wise variants (n counts words); used for constant-length operations on uniformly typed objects */
void __verif_memset16(u16* d, u8 c, u64 n); void __verif_memset32(u32* d, u8 c, u64 n); void __verif_memset64(u64* d, u8 c, u64 n);
void __verif_memcpy16(u16* d, const u16* s, u64 n); void __verif_memcpy32(u32* d, const u32* s, u64 n); void __verif_memcpy64(u64* d, const u64* s, u64 n);
void __verif_memmove16(u16* d, const u16* s, u64 n); void __verif_memmove32(u32* d, const u32* s, u64 n); void __verif_memmove64(u64* d, const u64* s, u64 n);

/* --- bit intrinsics --- */
u8 __verif_ctpop8(u8 x); u16 __verif_ctpop16(u16 x); u32 __verif_ctpop32(u32 x); u64 __verif_ctpop64(u64 x);
u8 __verif_ctlz8(u8 x, u1 z); u16 __verif_ctlz16(u16 x, u1 z); u32 __verif_ctlz32(u32 x, u1 z); u64 __verif_ctlz64(u64 x, u1 z);
u8 __verif_cttz8(u8 x, u1 z); u16 __verif_cttz16(u16 x, u1 z); u32 __verif_cttz32(u32 x, u1 z); u64 __verif_cttz64(u64 x, u1 z);
u16 __verif_bswap16(u16 x); u32 __verif_bswap32(u32 x); u64 __verif_bswap64(u64 x);
u8 __verif_fshl8(u8 a, u8 b, u8 c); u8 __verif_fshr8(u8 a, u8 b, u8 c); u16 __verif_fshl16(u16 a, u16 b, u16 c); u16 __verif_fshr16(u16 a, u16 b, u16 c);
u32 __verif_fshl32(u32 a, u32 b, u32 c); u64 __verif_fshl64(u64 a, u64 b, u64 c);
u32 __verif_fshr32(u32 a, u32 b, u32 c); u64 __verif_fshr64(u64 a, u64 b, u64 c);

/* --- memoising multiplier/divider (ir2c --hook-arith): the implementation and the reference model share one circuit
 *     when they multiply/divide the same operands, so equivalence is decided on the surrounding logic (DESIGN.md C08) --- */
u32 __verif_mul32(u32 a, u32 b); u64 __verif_mul64(u64 a, u64 b);
u32 __verif_udiv32(u32 a, u32 b); u32 __verif_urem32(u32 a, u32 b);
u64 __verif_udiv64(u64 a, u64 b); u64 __verif_urem64(u64 a, u64 b);
u32 __verif_sdiv32(u32 a, u32 b); u32 __verif_srem32(u32 a, u32 b);
extern int __verif_memo_miss;   /* number of products/quotients that did not hit a memo slot */

/* float<->double conversions with the x86 (and IEEE recommended) NaN rule: sign kept, payload truncated/extended, quiet bit set */
float __verif_d2f(double x); double __verif_f2d(float x);
/* memoised IEEE operations (ir2c --hook-fp): op 0 + 1 - 2 * 3 / ; an operation already performed on the same operand bit patterns reuses its circuit */
float __verif_fop32(int op, float a, float b); double __verif_fop64(int op, double a, double b);
/* sign/magnitude intrinsics and the libm functions used by xcomplex, bit-level (no floating-point circuits) */
float __verif_fabs32(float x); double __verif_fabs64(double x); float __verif_copysign32(float x, float y); double __verif_copysign64(double x, double y);
float __verif_maxnum32(float x, float y); double __verif_maxnum64(double x, double y); float __verif_minnum32(float x, float y); double __verif_minnum64(double x, double y);
u8* __verif_alloc_exact(u64 n);   /* exact-size heap object, constant-size cases for small n */
#define __verif_bitcast(ST, DT, x) (((union { ST s; DT d; }){ .s = (x) }).d)
#endif
