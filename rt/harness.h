/* Harness vocabulary.  One harness source is used in three ways:
 *   cbmc            (__CPROVER__)    inputs are unconstrained symbolic values -> the deciding run
 *   -DVERIF_REPLAY                   inputs come from replay_values.h (extracted from a cbmc
 *                                    counterexample); linked against the REAL g++-built wrappers
 *   -DVERIF_TV                       inputs come from a seeded PRNG; built twice (translated C vs
 *                                    real wrappers) and the logs diffed = translation validation
 */
#ifndef VERIF_HARNESS_H
#define VERIF_HARNESS_H
#include <stdint.h>
#include <stddef.h>
#include <string.h>
typedef uint8_t u1; typedef uint8_t u8; typedef uint16_t u16; typedef uint32_t u32; typedef uint64_t u64;
typedef int8_t i8; typedef int16_t i16; typedef int32_t i32; typedef int64_t i64;
typedef unsigned __int128 u128; typedef __int128 i128;

#if defined(__CPROVER__)
#  define IN(T, x) T x
#  define IN_ARR(T, x, n) T x[n]
#  define VASSUME(c) __CPROVER_assume(c)
#  define VASSERT(c, d) __CPROVER_assert(c, d)
#  define WITNESS(name, c) __CPROVER_assert(!(c), "WITNESS:" name)
#  define OBS(v) ((void)0)
#  define HARNESS_END() __CPROVER_assert(0, "WITNESS:end")
#elif defined(VERIF_REPLAY)
#  include <stdio.h>
#  include <stdlib.h>
#  include "replay_values.h"
#  define IN(T, x) T x = REPLAY_##x
#  define IN_ARR(T, x, n) T x[n] = REPLAY_##x
#  define VASSUME(c) do { if (!(c)) { printf("REPLAY-ASSUME-FALSE: %s\n", #c); fflush(stdout); exit(3); } } while (0)
#  define VASSERT(c, d) do { if (!(c)) { printf("REPLAY-FAIL: %s\n", d); fflush(stdout); exit(1); } } while (0)
#  define WITNESS(name, c) ((void)0)
#  define OBS(v) ((void)0)
#  define HARNESS_END() ((void)0)
#elif defined(VERIF_TV)
#  include <stdio.h>
#  include <stdlib.h>
#  include <setjmp.h>
void __tv_fill(void* p, size_t elem, size_t count);
void __tv_log(const char* what, uint64_t v);
extern jmp_buf __tv_jmp;
#  define IN(T, x) T x; __tv_fill(&x, sizeof(T), 1)
#  define IN_ARR(T, x, n) T x[n]; __tv_fill(x, sizeof(T), n)
#  define VASSUME(c) do { if (!(c)) longjmp(__tv_jmp, 1); } while (0)
#  define VASSERT(c, d) do { if (!(c)) __tv_log("FAIL:" d, 0); } while (0)
#  define WITNESS(name, c) do { if (c) __tv_log("W:" name, 0); } while (0)
#  define OBS(v) __tv_log("obs", (uint64_t)(v))
#  define HARNESS_END() __tv_log("end", 0)
#else
#  error "harness.h: no mode selected"
#endif

/* products/quotients of reference models: under cbmc they share the memoised circuit with the translated code */
#if defined(__CPROVER__)
u32 __verif_mul32(u32 a, u32 b); u64 __verif_mul64(u64 a, u64 b);
u32 __verif_udiv32(u32 a, u32 b); u32 __verif_urem32(u32 a, u32 b); u64 __verif_udiv64(u64 a, u64 b); u64 __verif_urem64(u64 a, u64 b);
extern int __verif_memo_miss;
#  define REF_MUL32(a, b) __verif_mul32(a, b)
#  define REF_MUL64(a, b) __verif_mul64(a, b)
#  define REF_UDIV32(a, b) __verif_udiv32(a, b)
u32 __verif_sdiv32(u32 a, u32 b); u32 __verif_srem32(u32 a, u32 b);
#  define REF_SDIV32(a, b) ((i32)__verif_sdiv32((u32)(a), (u32)(b)))
#  define REF_SREM32(a, b) ((i32)__verif_srem32((u32)(a), (u32)(b)))
#  define REF_UREM32(a, b) __verif_urem32(a, b)
#  define REF_UDIV64(a, b) __verif_udiv64(a, b)
#  define REF_UREM64(a, b) __verif_urem64(a, b)
#  define MEMO_MISSES() __verif_memo_miss
extern int __verif_seq_mode;
#  ifdef NO_LOCKSTEP
#  define MUL_RECORD() ((void)0)
#  define MUL_REPLAY() ((void)0)
#  else
void __verif_seq(int mode);
#  define MUL_RECORD() __verif_seq(1)   /* start a new product log: run the implementation */
#  define MUL_REPLAY() __verif_seq(2)   /* rewind: run the reference model (or the implementation again) against the log */
#  endif
#else
#  define REF_MUL32(a, b) ((u32)((u32)(a) * (u32)(b)))
#  define REF_MUL64(a, b) ((u64)((u64)(a) * (u64)(b)))
#  define REF_UDIV32(a, b) ((u32)((u32)(a) / (u32)(b)))
#  define REF_SDIV32(a, b) ((i32)(a) / (i32)(b))
#  define REF_SREM32(a, b) ((i32)(a) % (i32)(b))
#  define REF_UREM32(a, b) ((u32)((u32)(a) % (u32)(b)))
#  define REF_UDIV64(a, b) ((u64)((u64)(a) / (u64)(b)))
#  define REF_UREM64(a, b) ((u64)((u64)(a) % (u64)(b)))
#  define MEMO_MISSES() 0
#  define MUL_RECORD() ((void)0)
#  define MUL_REPLAY() ((void)0)
#endif

/* IEEE operations of reference formulas: under cbmc they share circuits with the translated code (memo keyed by the operand bit patterns) */
#if defined(__CPROVER__)
float __verif_fop32(int op, float a, float b); double __verif_fop64(int op, double a, double b);
#  define RF32(op, a, b) __verif_fop32(op, a, b)
#  define RF64(op, a, b) __verif_fop64(op, a, b)
#else
#  define RF32(op, a, b) ((op) == 0 ? (float)(a) + (float)(b) : (op) == 1 ? (float)(a) - (float)(b) : (op) == 2 ? (float)(a) * (float)(b) : (float)(a) / (float)(b))
#  define RF64(op, a, b) ((op) == 0 ? (double)(a) + (double)(b) : (op) == 1 ? (double)(a) - (double)(b) : (op) == 2 ? (double)(a) * (double)(b) : (double)(a) / (double)(b))
#endif
/* exact-size heap block for harness inputs (see rt_alloc in verif_rt.c) */
#if defined(__CPROVER__)
u8* __verif_alloc_exact(u64 n);
#  define HALLOC(n) __verif_alloc_exact(n)
#else
#  include <stdlib.h>
#  define HALLOC(n) ((u8*)malloc((n) ? (n) : 1))
#endif
/* exception / termination state of the translated code (in the real build the wrappers catch
 * C++ exceptions themselves and report them through return codes) */
#endif
