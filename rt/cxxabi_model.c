/* Model of __dynamic_cast (Itanium C++ ABI 2.9.7) over the class hierarchy recorded in the translated module's own type_info objects.
 * Supports non-virtual public inheritance graphs of depth <= 3 (single and multiple inheritance): down-casts, up-casts and cross-casts.
 * The dynamic type and the complete object are read from the object's vtable pointer (offset-to-top and type_info slots). */
#include "verif_rt.h"
int __verif_ti_nbases(u8* ti); u8* __verif_ti_base(u8* ti, int k); int64_t __verif_ti_base_off(u8* ti, int k); int __verif_ti_base_public(u8* ti, int k);
#define MAXB 4
u8* ext___dynamic_cast(u8* src, u8* src_ti, u8* dst_ti, u64 src2dst) {
  (void)src_ti; (void)src2dst;
  u8** vptr = *(u8***)src;
  int64_t off_top = (int64_t)(u64)vptr[-2];
  u8* dyn = vptr[-1];
  u8* complete = src + off_top;
  if (dyn == dst_ti) return complete;
  u8* found = 0; int count = 0;
  for (int i = 0; i < MAXB; i++) {
    if (i >= __verif_ti_nbases(dyn) || !__verif_ti_base_public(dyn, i)) continue;
    u8* b1 = __verif_ti_base(dyn, i); int64_t o1 = __verif_ti_base_off(dyn, i);
    if (b1 == dst_ti) { found = complete + o1; count++; continue; }
    for (int j = 0; j < MAXB; j++) {
      if (j >= __verif_ti_nbases(b1) || !__verif_ti_base_public(b1, j)) continue;
      u8* b2 = __verif_ti_base(b1, j); int64_t o2 = o1 + __verif_ti_base_off(b1, j);
      if (b2 == dst_ti) { found = complete + o2; count++; continue; }
      for (int k = 0; k < MAXB; k++) {
        if (k >= __verif_ti_nbases(b2) || !__verif_ti_base_public(b2, k)) continue;
        u8* b3 = __verif_ti_base(b2, k); int64_t o3 = o2 + __verif_ti_base_off(b2, k);
        if (b3 == dst_ti) { found = complete + o3; count++; }
      }
    }
  }
  return count == 1 ? found : 0;   /* ambiguous or absent base: the cast fails */
}
