#!/bin/bash
# seedrun_thorough.sh <PROP> <seed name> <only-regex>: like seedrun.sh but runs selected obligations of the THOROUGH tier against the seeded tree (result appended to meta.json)
set -u
P=$1; NAME=$2; ONLY=$3
D=/verif/seeded/$NAME; WT=/tmp/seedrunT_$NAME
git -C /repo worktree remove --force $WT >/dev/null 2>&1
git -C /repo worktree add --detach $WT HEAD >/dev/null 2>&1 || { echo "cannot create worktree"; exit 2; }
git -C $WT apply $D/patch.diff || { git -C /repo worktree remove --force $WT; echo "patch does not apply"; exit 2; }
LOG=$(mktemp)
( cd /verif && VERIF_REPO=$WT VERIF_TAG=${NAME}T timeout 7000 ./check $P --tier thorough --only "$ONLY" ) >$LOG 2>&1; rc=$?
git -C /repo worktree remove --force $WT
nv=$(grep -c '^VIOLATION' $LOG)
echo "$NAME: check $P --tier thorough --only $ONLY exit=$rc violations=$nv"
grep -E '^VIOLATION' $LOG | head -2 | cut -c1-400
python3 - "$D/meta.json" "$P" "$rc" "$LOG" "$ONLY" <<'PY'
import json,sys,re
mp,p,rc,log,only=sys.argv[1:6]
m=json.load(open(mp)); txt=open(log).read()
v=[l for l in txt.splitlines() if l.startswith('VIOLATION')]
m['detected_by_thorough']={'check':'./check %s --tier thorough --only %s'%(p,only),'exit':int(rc),'detected':int(rc)==1 and bool(v),'violation_lines':[re.sub(r'\s+',' ',l)[:500] for l in v[:3]]}
json.dump(m,open(mp,'w'),indent=1)
PY
rm -rf /verif/build/seedruns/${NAME}T /verif/build/$P.${NAME}T; rm -f $LOG
