#!/usr/bin/env python3
"""LLVM-14 IR -> C translator used by the xtl solver-based checks.

Reads a .ll file through libLLVM-14's C API (ctypes; no home-made IR parser) and emits
  <out>.c     one C translation unit with the semantics of the IR (see DESIGN.md 1.1)
  <out>.h     prototypes of the extern "C" wrappers (names starting with w_) for the harness
  <out>.json  meta data: functions encoded, externals, typeinfo ids (goes into the evidence)
usage: ir2c.py in.ll outbase [--inert name,name,...] [--lifetime-heap]
"""
import ctypes, sys, re, json
from ctypes import c_void_p, c_char_p, c_uint, c_int, c_ulonglong, c_size_t, POINTER, byref, c_double, c_longlong

L = ctypes.CDLL("libLLVM-14.so")

def F(name, res, *args):
    f = getattr(L, name)
    f.restype = res
    f.argtypes = list(args)
    return f

P = c_void_p
ContextCreate = F("LLVMContextCreate", P)
CreateBuf = F("LLVMCreateMemoryBufferWithContentsOfFile", c_int, c_char_p, POINTER(P), POINTER(c_char_p))
ParseIR = F("LLVMParseIRInContext", c_int, P, P, POINTER(P), POINTER(c_char_p))
GetFirstFunction = F("LLVMGetFirstFunction", P, P); GetNextFunction = F("LLVMGetNextFunction", P, P)
GetFirstGlobal = F("LLVMGetFirstGlobal", P, P); GetNextGlobal = F("LLVMGetNextGlobal", P, P)
GetModuleDataLayout = F("LLVMGetModuleDataLayout", P, P)
ABISizeOfType = F("LLVMABISizeOfType", c_ulonglong, P, P)
OffsetOfElement = F("LLVMOffsetOfElement", c_ulonglong, P, P, c_uint)
GetValueName2 = F("LLVMGetValueName2", c_void_p, P, POINTER(c_size_t))
TypeOf = F("LLVMTypeOf", P, P)
GetValueKind = F("LLVMGetValueKind", c_int, P)
PrintValueToString = F("LLVMPrintValueToString", c_void_p, P)
PrintTypeToString = F("LLVMPrintTypeToString", c_void_p, P)
DisposeMessage = F("LLVMDisposeMessage", None, c_void_p)
IsDeclaration = F("LLVMIsDeclaration", c_int, P)
GetNumOperands = F("LLVMGetNumOperands", c_int, P)
GetOperand = F("LLVMGetOperand", P, P, c_uint)
GetInitializer = F("LLVMGetInitializer", P, P)
IsGlobalConstant = F("LLVMIsGlobalConstant", c_int, P)
GlobalGetValueType = F("LLVMGlobalGetValueType", P, P)
CountParams = F("LLVMCountParams", c_uint, P); GetParam = F("LLVMGetParam", P, P, c_uint)
GetFirstBasicBlock = F("LLVMGetFirstBasicBlock", P, P); GetNextBasicBlock = F("LLVMGetNextBasicBlock", P, P)
BasicBlockAsValue = F("LLVMBasicBlockAsValue", P, P); ValueAsBasicBlock = F("LLVMValueAsBasicBlock", P, P)
GetFirstInstruction = F("LLVMGetFirstInstruction", P, P); GetNextInstruction = F("LLVMGetNextInstruction", P, P)
GetInstructionOpcode = F("LLVMGetInstructionOpcode", c_int, P)
GetIntrinsicID = F("LLVMGetIntrinsicID", c_uint, P)
GetTypeKind = F("LLVMGetTypeKind", c_int, P)
GetIntTypeWidth = F("LLVMGetIntTypeWidth", c_uint, P)
GetElementType = F("LLVMGetElementType", P, P)
GetArrayLength = F("LLVMGetArrayLength", c_uint, P)
GetVectorSize = F("LLVMGetVectorSize", c_uint, P)
CountStructElementTypes = F("LLVMCountStructElementTypes", c_uint, P)
GetStructElementTypes = F("LLVMGetStructElementTypes", None, P, POINTER(P))
GetStructName = F("LLVMGetStructName", c_char_p, P)
IsPackedStruct = F("LLVMIsPackedStruct", c_int, P); IsOpaqueStruct = F("LLVMIsOpaqueStruct", c_int, P)
GetReturnType = F("LLVMGetReturnType", P, P); CountParamTypes = F("LLVMCountParamTypes", c_uint, P)
GetParamTypes = F("LLVMGetParamTypes", None, P, POINTER(P)); IsFunctionVarArg = F("LLVMIsFunctionVarArg", c_int, P)
GetICmpPredicate = F("LLVMGetICmpPredicate", c_int, P); GetFCmpPredicate = F("LLVMGetFCmpPredicate", c_int, P)
GetAllocatedType = F("LLVMGetAllocatedType", P, P)
GetGEPSourceElementType = F("LLVMGetGEPSourceElementType", P, P)
GetNumIndices = F("LLVMGetNumIndices", c_uint, P); GetIndices = F("LLVMGetIndices", POINTER(c_uint), P)
CountIncoming = F("LLVMCountIncoming", c_uint, P); GetIncomingValue = F("LLVMGetIncomingValue", P, P, c_uint)
GetIncomingBlock = F("LLVMGetIncomingBlock", P, P, c_uint)
GetCalledValue = F("LLVMGetCalledValue", P, P); GetCalledFunctionType = F("LLVMGetCalledFunctionType", P, P)
GetNumArgOperands = F("LLVMGetNumArgOperands", c_uint, P)
GetNormalDest = F("LLVMGetNormalDest", P, P); GetUnwindDest = F("LLVMGetUnwindDest", P, P)
GetNumSuccessors = F("LLVMGetNumSuccessors", c_uint, P); GetSuccessor = F("LLVMGetSuccessor", P, P, c_uint)
IsConditional = F("LLVMIsConditional", c_int, P); GetCondition = F("LLVMGetCondition", P, P)
GetSwitchDefaultDest = F("LLVMGetSwitchDefaultDest", P, P)
GetNumClauses = F("LLVMGetNumClauses", c_uint, P); GetClause = F("LLVMGetClause", P, P, c_uint); IsCleanup = F("LLVMIsCleanup", c_int, P)
GetConstOpcode = F("LLVMGetConstOpcode", c_int, P)
ConstIntGetZExtValue = F("LLVMConstIntGetZExtValue", c_ulonglong, P)
ConstRealGetDouble = F("LLVMConstRealGetDouble", c_double, P, POINTER(c_int))
IsConstantString = F("LLVMIsConstantString", c_int, P); GetAsString = F("LLVMGetAsString", c_void_p, P, POINTER(c_size_t))
GetElementAsConstant = F("LLVMGetElementAsConstant", P, P, c_uint)
GetAggregateElement = None
IsUndef = F("LLVMIsUndef", c_int, P); IsPoison = F("LLVMIsPoison", c_int, P); IsNull = F("LLVMIsNull", c_int, P)

# value kinds
VK = dict(Argument=0, BasicBlock=1, MemoryUse=2, MemoryDef=3, MemoryPhi=4, Function=5, GlobalAlias=6, GlobalIFunc=7,
          GlobalVariable=8, BlockAddress=9, ConstantExpr=10, ConstantArray=11, ConstantStruct=12, ConstantVector=13,
          UndefValue=14, ConstantAggregateZero=15, ConstantDataArray=16, ConstantDataVector=17, ConstantInt=18,
          ConstantFP=19, ConstantPointerNull=20, ConstantTokenNone=21, MetadataAsValue=22, InlineAsm=23, Instruction=24, PoisonValue=25)
# type kinds
TK = dict(Void=0, Half=1, Float=2, Double=3, X86_FP80=4, FP128=5, PPC_FP128=6, Label=7, Integer=8, Function=9, Struct=10,
          Array=11, Pointer=12, Vector=13, Metadata=14, X86_MMX=15, Token=16)
OPC = {1:'ret',2:'br',3:'switch',4:'indirectbr',5:'invoke',7:'unreachable',65:'callbr',66:'fneg',8:'add',9:'fadd',10:'sub',11:'fsub',12:'mul',
       13:'fmul',14:'udiv',15:'sdiv',16:'fdiv',17:'urem',18:'srem',19:'frem',20:'shl',21:'lshr',22:'ashr',23:'and',24:'or',25:'xor',
       26:'alloca',27:'load',28:'store',29:'getelementptr',30:'trunc',31:'zext',32:'sext',33:'fptoui',34:'fptosi',35:'uitofp',36:'sitofp',
       37:'fptrunc',38:'fpext',39:'ptrtoint',40:'inttoptr',41:'bitcast',60:'addrspacecast',42:'icmp',43:'fcmp',44:'phi',45:'call',46:'select',
       47:'userop1',48:'userop2',49:'va_arg',50:'extractelement',51:'insertelement',52:'shufflevector',53:'extractvalue',54:'insertvalue',
       67:'freeze',55:'fence',56:'cmpxchg',57:'atomicrmw',58:'resume',59:'landingpad',61:'cleanupret',62:'catchret',63:'catchpad',64:'cleanuppad',6:'catchswitch'}
ICMP = {32:'eq',33:'ne',34:'ugt',35:'uge',36:'ult',37:'ule',38:'sgt',39:'sge',40:'slt',41:'sle'}
FCMP = {0:'false',1:'oeq',2:'ogt',3:'oge',4:'olt',5:'ole',6:'one',7:'ord',8:'uno',9:'ueq',10:'ugt',11:'uge',12:'ult',13:'ule',14:'une',15:'true'}

def msg(p):
    s = ctypes.string_at(p).decode(); DisposeMessage(p); return s
def vstr(v): return msg(PrintValueToString(v))
def tstr(t): return msg(PrintTypeToString(t))
def vname(v):
    n = c_size_t(0); p = GetValueName2(v, byref(n))
    return ctypes.string_at(p, n.value).decode()

class Unsupported(Exception): pass

def cid(s):
    return re.sub(r'[^A-Za-z0-9_]', lambda m: '_%02x' % ord(m.group(0)), s)

class Translator:
    def __init__(self, path):
        self.ctx = ContextCreate()
        buf = P(); err = c_char_p()
        if CreateBuf(path.encode(), byref(buf), byref(err)): raise RuntimeError(err.value)
        mod = P()
        if ParseIR(self.ctx, buf, byref(mod), byref(err)): raise RuntimeError(err.value)
        self.mod = mod
        self.dl = GetModuleDataLayout(mod)
        self.types = {}       # type ptr -> c name
        self.typedefs = []    # ordered C definitions
        self.struct_idx = 0
        self.globals = {}
        self.out = []
        self.typeinfo_ids = {}
        self.stubs = set()

    # ---------------- types
    def ctype(self, t):
        key = t
        if key in self.types: return self.types[key]
        kind = GetTypeKind(t)
        if kind == TK['Void']: r = 'void'
        elif kind == TK['Integer']:
            w = GetIntTypeWidth(t)
            if w == 1: r = 'u1'
            elif w <= 8: r = 'u8'
            elif w <= 16: r = 'u16'
            elif w <= 32: r = 'u32'
            elif w <= 64: r = 'u64'
            elif w <= 128: r = 'u128'
            else: raise Unsupported('int width %d' % w)
        elif kind == TK['Float']: r = 'float'
        elif kind == TK['Double']: r = 'double'
        elif kind == TK['X86_FP80']: r = 'long double'
        elif kind == TK['Half']: r = '_Float16'
        elif kind == TK['Pointer']:
            et = GetElementType(t)
            ek = GetTypeKind(et)
            if ek == TK['Void']: r = 'u8*'
            else:
                # break recursion for struct pointers
                r = self.ctype_fwd(et) + '*'
        elif kind == TK['Struct']:
            r = self.struct_type(t)
        elif kind == TK['Array']:
            et = GetElementType(t); n = GetArrayLength(t)
            en = self.ctype(et)
            self.struct_idx += 1
            r = 'A%d' % self.struct_idx
            self.types[key] = r
            self.typedefs.append('typedef struct { %s a[%d]; } %s; /* %s */' % (en, max(n, 1) if n else 1, r, tstr(t)) if n else
                                 'typedef struct { %s a[1]; } %s; /* zero-length %s */' % (en, r, tstr(t)))
            return r
        elif kind == TK['Function']:
            self.struct_idx += 1
            r = 'FT%d' % self.struct_idx
            self.types[key] = r
            rt = self.ctype(GetReturnType(t))
            n = CountParamTypes(t)
            arr = (P * n)(); GetParamTypes(t, arr)
            ps = [self.ctype(arr[i]) for i in range(n)]
            if IsFunctionVarArg(t):
                args = ', '.join(ps + ['...']) if ps else ''
            else:
                args = ', '.join(ps) if ps else 'void'
            self.typedefs.append('typedef %s %s(%s);' % (rt, r, args))
            return r
        elif kind == TK['Vector']:
            # small vectors appear through ABI coercion (std::complex<float> is passed as <2 x float>): a struct of n elements
            et = GetElementType(t); n = GetVectorSize(t); en = self.ctype(et)
            if GetTypeKind(et) not in (TK['Float'], TK['Double'], TK['Integer']) or n > 8: raise Unsupported('vector type ' + tstr(t))
            r = 'V%d_%s' % (n, re.sub(r'\W', '', en))
            if r not in getattr(self, 'vec_defined', set()):
                self.vec_defined = getattr(self, 'vec_defined', set()) | {r}
                self.typedefs.append('typedef struct { %s a[%d]; } %s; /* %s */' % (en, n, r, tstr(t)))
        else:
            raise Unsupported('type ' + tstr(t))
        self.types[key] = r
        return r

    def ctype_fwd(self, t):
        # name usable behind a pointer (struct may be incomplete at this point)
        if GetTypeKind(t) == TK['Struct']:
            key = t
            if key in self.types: return self.types[key]
            return self.struct_type(t, fwd_only=True)
        return self.ctype(t)

    def struct_type(self, t, fwd_only=False):
        key = t
        if key not in self.types:
            self.struct_idx += 1
            name = 'struct S%d' % self.struct_idx
            self.types[key] = name
            self.typedefs.append('%s; /* %s */' % (name, (GetStructName(t) or b'literal').decode()))
            self.pending = getattr(self, 'pending', [])
            self.pending.append(t)
        if not fwd_only:
            self.flush_structs()
        return self.types[key]

    def flush_structs(self):
        # define bodies of pending structs (dependencies first for by-value members)
        while getattr(self, 'pending', []):
            t = self.pending.pop()
            self.define_struct(t)

    def define_struct(self, t):
        key = t
        self.defined = getattr(self, 'defined', set())
        if key in self.defined: return
        self.defined.add(key)
        if IsOpaqueStruct(t): return
        n = CountStructElementTypes(t)
        arr = (P * n)(); GetStructElementTypes(t, arr)
        fields = []
        for i in range(n):
            ft = arr[i]
            # by-value struct members must be fully defined first
            self.ensure_defined(ft)
            fields.append('%s f%d;' % (self.ctype(ft), i))
        if n == 0: fields.append('u8 __empty[0];')
        packed = ' __attribute__((packed))' if IsPackedStruct(t) else ''
        self.typedefs.append('%s { %s }%s;' % (self.types[key], ' '.join(fields), packed))

    def ensure_defined(self, t):
        k = GetTypeKind(t)
        if k == TK['Struct']:
            self.struct_type(t, fwd_only=True)
            if t in getattr(self, 'pending', []):
                self.pending = [p for p in self.pending if p != t]
            self.define_struct(t)
        elif k == TK['Array']:
            self.ensure_defined(GetElementType(t))
            self.ctype(t)

    # ---------------- naming
    def gname(self, v):
        n = vname(v)
        return 'g_' + cid(n) if GetValueKind(v) == VK['GlobalVariable'] else cid(n)

    def fname(self, f):
        n = vname(f)
        if IsDeclaration(f) and not (n.startswith('__verif_') or n.startswith('hook_') or n.startswith('nondet_')):
            return 'ext_' + cid(n)
        return n if re.match(r'^[A-Za-z_][A-Za-z0-9_]*$', n) else cid(n)

    # ---------------- constants & operands
    def const(self, v):
        k = GetValueKind(v)
        t = TypeOf(v)
        ct = self.ctype(t)
        if k == VK['ConstantInt']:
            w = GetIntTypeWidth(t)
            if w > 64:
                s = vstr(v).split()[-1]
                return '((u128)%s)' % s if not s.startswith('-') else '((u128)(__int128)%s)' % s
            return '((%s)%dULL)' % (ct, ConstIntGetZExtValue(v))
        if k == VK['ConstantFP']:
            lose = c_int(0); d = ConstRealGetDouble(v, byref(lose))
            if d != d: return '((%s)__builtin_nan(""))' % ct
            if d in (float('inf'), float('-inf')): return '((%s)%s__builtin_inf())' % (ct, '-' if d < 0 else '')
            return '((%s)%s)' % (ct, d.hex())
        if k == VK['ConstantPointerNull']: return '((%s)0)' % ct
        if k in (VK['UndefValue'], VK['PoisonValue']):
            tk = GetTypeKind(t)
            if tk in (TK['Struct'], TK['Array'], TK['Vector']): return '(%s){0}' % ct
            return '((%s)0)' % ct
        if k == VK['GlobalVariable']:
            if IsDeclaration(v) and vname(v).startswith('_ZTI') and ct == 'u8**': return '((u8**)%s)' % self.gname(v)   # external type_info: {vptr, name} array
            return '(&%s)' % self.gname(v)
        if k == VK['Function']: return '(&%s)' % self.fname(v)
        if k == VK['ConstantExpr']: return self.constexpr(v)
        if k == VK['ConstantAggregateZero']: return '(%s){0}' % ct
        if k in (VK['ConstantVector'], VK['ConstantDataVector']):
            n = GetVectorSize(t)
            els = [GetElementAsConstant(v, i) if k == VK['ConstantDataVector'] else GetOperand(v, i) for i in range(n)]
            return '(%s){{%s}}' % (ct, ', '.join(self.const(e) for e in els))
        if k in (VK['ConstantStruct'], VK['ConstantArray'], VK['ConstantDataArray']):
            return '(%s)%s' % (ct, self.init(v))
        raise Unsupported('const kind %d: %s' % (k, vstr(v)))

    def init(self, v):
        """C initializer (brace form) for a constant of aggregate or scalar type"""
        k = GetValueKind(v); t = TypeOf(v); tk = GetTypeKind(t)
        if k == VK['ConstantAggregateZero']: return '{0}'
        if k in (VK['UndefValue'], VK['PoisonValue']) and tk in (TK['Struct'], TK['Array']): return '{0}'
        if k == VK['ConstantDataArray']:
            n = GetArrayLength(t)
            return '{{' + ', '.join(self.init(GetElementAsConstant(v, i)) for i in range(n)) + '}}'
        if k == VK['ConstantArray']:
            n = GetNumOperands(v)
            return '{{' + ', '.join(self.init(GetOperand(v, i)) for i in range(n)) + '}}'
        if k == VK['ConstantStruct']:
            n = GetNumOperands(v)
            return '{' + ', '.join(self.init(GetOperand(v, i)) for i in range(n)) + '}'
        return self.const(v)

    def constexpr(self, v):
        op = OPC[GetConstOpcode(v)]
        return self.expr(op, v, is_const=True)

    def val(self, v):
        k = GetValueKind(v)
        if k == VK['Instruction'] or k == VK['Argument']:
            return self.locals[v]
        return self.const(v)

    def sgn(self, t):
        return {'u1': 'int8_t', 'u8': 'int8_t', 'u16': 'int16_t', 'u32': 'int32_t', 'u64': 'int64_t', 'u128': '__int128'}[self.ctype(t)]

    def sval(self, v):
        """operand as signed C value, sign-extended from its LLVM width"""
        t = TypeOf(v); w = GetIntTypeWidth(t); ct = self.ctype(t); st = self.sgn(t)
        cw = {'u1': 8, 'u8': 8, 'u16': 16, 'u32': 32, 'u64': 64, 'u128': 128}[ct]
        x = self.val(v)
        if w == cw: return '((%s)%s)' % (st, x)
        if w == 1: return '((%s)(%s ? -1 : 0))' % (st, x)
        return '((%s)((%s)(%s << %d)) >> %d)' % (st, st, x, cw - w, cw - w)

    def mask(self, t, e):
        w = GetIntTypeWidth(t); ct = self.ctype(t)
        cw = {'u1': 8, 'u8': 8, 'u16': 16, 'u32': 32, 'u64': 64, 'u128': 128}[ct]
        if w == cw: return '((%s)(%s))' % (ct, e)
        if w == 1: return '((u1)((%s) & 1))' % e
        return '((%s)((%s) & ((((%s)1) << %d) - 1)))' % (ct, e, ct, w)

    def gep(self, v, ops, srcty):
        base = self.val(ops[0])
        e = '(%s)[(int64_t)%s]' % (base, self.idx(ops[1]))
        t = srcty
        for o in ops[2:]:
            tk = GetTypeKind(t)
            if tk == TK['Struct']:
                i = ConstIntGetZExtValue(o)
                n = CountStructElementTypes(t); arr = (P * n)(); GetStructElementTypes(t, arr)
                e += '.f%d' % i; t = arr[i]
            elif tk in (TK['Array'], TK['Vector']):
                e += '.a[(int64_t)%s]' % self.idx(o); t = GetElementType(t)
            else:
                raise Unsupported('gep into ' + tstr(t))
        return '(&%s)' % e

    def idx(self, o):
        if GetValueKind(o) == VK['ConstantInt']:
            t = TypeOf(o); w = GetIntTypeWidth(t); z = ConstIntGetZExtValue(o)
            if z >= 1 << (w - 1): z -= 1 << w
            return str(z) + 'LL'
        return self.sval(o)

    def expr(self, op, v, is_const=False):
        n = GetNumOperands(v)
        ops = [GetOperand(v, i) for i in range(n)]
        t = TypeOf(v); ct = self.ctype(t)
        A = lambda i: self.val(ops[i])
        if op == 'mul' and getattr(self, 'hook_arith', False) and not is_const and GetIntTypeWidth(t) in (32, 64) \
                and (self.hook_arith == 'all' or (GetValueKind(ops[0]) != VK['ConstantInt'] and GetValueKind(ops[1]) != VK['ConstantInt'])):
            return '__verif_mul%d(%s, %s)' % (GetIntTypeWidth(t), A(0), A(1))
        if op in ('udiv', 'urem') and getattr(self, 'hook_arith', False) and not is_const and GetIntTypeWidth(t) in (32, 64) \
                and GetValueKind(ops[1]) != VK['ConstantInt']:
            return '(__verif_divcheck(%s != 0), __verif_%s%d(%s, %s))' % (A(1), op, GetIntTypeWidth(t), A(0), A(1))
        if op == 'sub' and GetIntTypeWidth(t) == 64:
            # end - begin of a container: the difference of two pointers into the same object is the difference of their offsets; stated that way
            # cbmc's symbolic execution folds it to a constant whenever both pointers are known (sizes of containers with a concrete history)
            pp = []
            for o in ops:
                k = GetValueKind(o)
                if k == VK['Instruction'] and OPC[GetInstructionOpcode(o)] == 'ptrtoint' and GetTypeKind(TypeOf(GetOperand(o, 0))) == TK['Pointer']: pp.append(GetOperand(o, 0))
            if len(pp) == 2: return '__verif_ptrdiff((u8*)%s, (u8*)%s)' % (self.val(pp[0]), self.val(pp[1]))
        if op in ('add', 'sub', 'mul', 'and', 'or', 'xor'):
            c = {'add': '+', 'sub': '-', 'mul': '*', 'and': '&', 'or': '|', 'xor': '^'}[op]
            return self.mask(t, '(%s)%s %s (%s)%s' % (ct, A(0), c, ct, A(1)))
        if op in ('udiv', 'urem'):
            c = '/' if op == 'udiv' else '%'
            return '(__verif_divcheck(%s != 0), (%s)(%s %s %s))' % (A(1), ct, A(0), c, A(1))
        if op in ('sdiv', 'srem') and getattr(self, 'hook_arith', False) and not is_const and GetIntTypeWidth(t) == 32 \
                and GetValueKind(ops[1]) != VK['ConstantInt']:
            return '(__verif_divcheck(%s != 0), __verif_%s32(%s, %s))' % (A(1), op, A(0), A(1))
        if op in ('sdiv', 'srem'):
            c = '/' if op == 'sdiv' else '%'
            return '(__verif_divcheck(%s != 0), %s)' % (A(1), self.mask(t, '%s %s %s' % (self.sval(ops[0]), c, self.sval(ops[1]))))
        if op == 'shl':
            w = GetIntTypeWidth(t)
            return '(%s < %d ? %s : (%s)0)' % (A(1), w, self.mask(t, '%s << %s' % (A(0), A(1))), ct)
        if op == 'lshr':
            w = GetIntTypeWidth(t)
            return '(%s < %d ? (%s)(%s >> %s) : (%s)0)' % (A(1), w, ct, A(0), A(1), ct)
        if op == 'ashr':
            w = GetIntTypeWidth(t)
            return '(%s < %d ? %s : (%s)0)' % (A(1), w, self.mask(t, '%s >> %s' % (self.sval(ops[0]), A(1))), ct)
        if op in ('fadd', 'fsub', 'fmul', 'fdiv') and getattr(self, 'hook_fp', False) and not is_const and ct in ('float', 'double'):
            return '__verif_fop%s(%d, %s, %s)' % ('32' if ct == 'float' else '64', ['fadd', 'fsub', 'fmul', 'fdiv'].index(op), A(0), A(1))
        if op in ('fadd', 'fsub', 'fmul', 'fdiv'):
            c = {'fadd': '+', 'fsub': '-', 'fmul': '*', 'fdiv': '/'}[op]
            return '(%s %s %s)' % (A(0), c, A(1))
        if op == 'fneg': return '(-%s)' % A(0)
        if op == 'frem': return '__verif_frem(%s, %s)' % (A(0), A(1))
        if op == 'icmp':
            p = ICMP[GetICmpPredicate(v)]
            ot = TypeOf(ops[0])
            if GetTypeKind(ot) == TK['Pointer']:
                c = {'eq': '==', 'ne': '!=', 'ugt': '>', 'uge': '>=', 'ult': '<', 'ule': '<=', 'sgt': '>', 'sge': '>=', 'slt': '<', 'sle': '<='}[p]
                if p in ('eq', 'ne'):
                    return '((u1)((u8*)%s %s (u8*)%s))' % (A(0), c, A(1))
                return '((u1)((u64)%s %s (u64)%s))' % (A(0), c, A(1))
            if p[0] == 's':
                c = {'sgt': '>', 'sge': '>=', 'slt': '<', 'sle': '<='}[p]
                return '((u1)(%s %s %s))' % (self.sval(ops[0]), c, self.sval(ops[1]))
            c = {'eq': '==', 'ne': '!=', 'ugt': '>', 'uge': '>=', 'ult': '<', 'ule': '<='}[p]
            return '((u1)(%s %s %s))' % (A(0), c, A(1))
        if op == 'fcmp':
            p = FCMP[GetFCmpPredicate(v)]
            a, b = A(0), A(1)
            uno = '(%s != %s || %s != %s)' % (a, a, b, b)
            base = {'eq': '==', 'gt': '>', 'ge': '>=', 'lt': '<', 'le': '<=', 'ne': '!='}
            if p == 'false': return '((u1)0)'
            if p == 'true': return '((u1)1)'
            if p == 'ord': return '((u1)!%s)' % uno
            if p == 'uno': return '((u1)%s)' % uno
            if p == 'one': return '((u1)(!%s && %s != %s))' % (uno, a, b)
            if p == 'ueq': return '((u1)(%s || %s == %s))' % (uno, a, b)
            if p == 'une': return '((u1)(%s != %s))' % (a, b)
            if p[0] == 'o': return '((u1)(%s %s %s))' % (a, base[p[1:]], b)
            return '((u1)(%s || %s %s %s))' % (uno, a, base[p[1:]], b)
        if op in ('trunc', 'zext'):
            return self.mask(t, '(%s)%s' % (ct, A(0)))
        if op == 'sext':
            return self.mask(t, '(%s)%s' % (self.sgn(t), self.sval(ops[0])))
        if op in ('fptoui',): return self.mask(t, '(%s)%s' % (ct, A(0)))
        if op in ('fptosi',): return self.mask(t, '(%s)%s' % (self.sgn(t), A(0)))
        if op == 'uitofp': return '((%s)%s)' % (ct, A(0))
        if op == 'sitofp': return '((%s)%s)' % (ct, self.sval(ops[0]))
        if op in ('fptrunc', 'fpext'):
            st = self.ctype(TypeOf(ops[0]))
            if (st, ct) == ('double', 'float'): return '__verif_d2f(%s)' % A(0)    # x86 NaN payload rule, see rt
            if (st, ct) == ('float', 'double'): return '__verif_f2d(%s)' % A(0)
            return '((%s)%s)' % (ct, A(0))
        if op == 'ptrtoint': return self.mask(t, '(u64)%s' % A(0))
        if op == 'inttoptr': return '((%s)(u64)%s)' % (ct, A(0))
        if op == 'bitcast':
            st = TypeOf(ops[0])
            if GetTypeKind(st) == TK['Pointer'] and GetTypeKind(t) == TK['Pointer']:
                return '((%s)%s)' % (ct, A(0))
            return '__verif_bitcast(%s, %s, %s)' % (self.ctype(st), ct, A(0))
        if op == 'getelementptr':
            return self.gep(v, ops, GetGEPSourceElementType(v))
        if op == 'select':
            return '(%s ? %s : %s)' % (A(0), A(1), A(2))
        if op == 'freeze': return A(0)
        raise Unsupported('op ' + op + ': ' + vstr(v))

    def odd_int_bytes(self, t):
        if GetTypeKind(t) != TK['Integer']: return 0
        w = GetIntTypeWidth(t)
        if w in (1, 8, 16, 32, 64, 128): return 0
        if w % 8: raise Unsupported('load/store of i%d' % w)
        return w // 8

    def leaf_width(self, v):
        """size in bytes of the scalar leaves of the object an i8* value points into, when it is visibly a bitcast of a typed pointer
        to an aggregate whose leaves all have the same size; 1 otherwise"""
        k = GetValueKind(v)
        if k == VK['Instruction'] and OPC[GetInstructionOpcode(v)] == 'bitcast' or k == VK['ConstantExpr'] and OPC[GetConstOpcode(v)] == 'bitcast':
            t = TypeOf(GetOperand(v, 0))
            if GetTypeKind(t) != TK['Pointer']: return 1
            sizes = set()
            def walk(t):
                tk = GetTypeKind(t)
                if tk == TK['Struct']:
                    if IsOpaqueStruct(t) or IsPackedStruct(t): sizes.add(1); return
                    n = CountStructElementTypes(t); arr = (P * n)(); GetStructElementTypes(t, arr)
                    for i in range(n): walk(arr[i])
                elif tk == TK['Array']: walk(GetElementType(t))
                elif tk == TK['Integer']: sizes.add(max(1, GetIntTypeWidth(t) // 8))
                elif tk == TK['Float']: sizes.add(4)
                elif tk in (TK['Double'], TK['Pointer']): sizes.add(8)
                else: sizes.add(1)
            walk(GetElementType(t))
            if len(sizes) == 1: return sizes.pop()
        return 1

    # ---------------- functions
    def translate_function(self, f):
        name = self.fname(f)
        ft = GlobalGetValueType(f)
        rt = self.ctype(GetReturnType(ft))
        self.locals = {}
        params = []
        for i in range(CountParams(f)):
            p = GetParam(f, i)
            self.locals[p] = 'a%d' % i
            params.append('%s a%d' % (self.ctype(TypeOf(p)), i))
        sig = '%s %s(%s)' % (rt, name, ', '.join(params) if params else 'void')
        if 'byval' in vstr(f).split('{')[0]:
            raise Unsupported('byval param in ' + name)
        body = []; decls = []
        bbs = []
        bb = GetFirstBasicBlock(f)
        while bb:
            bbs.append(bb); bb = GetNextBasicBlock(bb)
        bbname = {b: 'L%d' % i for i, b in enumerate(bbs)}
        # number instructions
        cnt = 0
        for b in bbs:
            ins = GetFirstInstruction(b)
            while ins:
                t = TypeOf(ins)
                if GetTypeKind(t) != TK['Void']:
                    cnt += 1
                    self.locals[ins] = 'r%d' % cnt
                ins = GetNextInstruction(ins)
        retdefault = '' if rt == 'void' else ('(%s){0}' % rt if rt.startswith('struct') or re.match(r'(A\d+|V\d+_\w+)$', rt) else '(%s)0' % rt)
        def edge(frm, to):
            """phi copies for edge frm->to then goto"""
            out = []
            ins = GetFirstInstruction(to); phis = []
            while ins and OPC[GetInstructionOpcode(ins)] == 'phi':
                for i in range(CountIncoming(ins)):
                    if GetIncomingBlock(ins, i) == frm:
                        phis.append((ins, GetIncomingValue(ins, i))); break
                ins = GetNextInstruction(ins)
            if len(phis) == 1:
                out.append('%s = %s;' % (self.locals[phis[0][0]], self.val(phis[0][1])))
            elif phis:
                for (p, v) in phis: out.append('%s_t = %s;' % (self.locals[p], self.val(v)))
                for (p, v) in phis: out.append('%s = %s_t;' % (self.locals[p], self.locals[p]))
            out.append('goto %s;' % bbname[to])
            return ' '.join(out)
        for b in bbs:
            body.append('%s: ;' % bbname[b])
            ins = GetFirstInstruction(b)
            while ins:
                op = OPC[GetInstructionOpcode(ins)]
                t = TypeOf(ins); hasv = GetTypeKind(t) != TK['Void']
                if hasv:
                    ct = self.ctype(t)
                    decls.append('%s %s;' % (ct, self.locals[ins]))
                n = GetNumOperands(ins); ops = [GetOperand(ins, i) for i in range(n)]
                if op == 'phi':
                    decls.append('%s %s_t;' % (ct, self.locals[ins]))
                elif op == 'alloca':
                    at = GetAllocatedType(ins); self.ensure_defined(at)
                    if GetValueKind(ops[0]) != VK['ConstantInt'] or ConstIntGetZExtValue(ops[0]) != 1:
                        raise Unsupported('array alloca')
                    decls.append('%s %s_mem;' % (self.ctype(at), self.locals[ins]))
                    body.append('%s = &%s_mem;' % (self.locals[ins], self.locals[ins]))
                elif op == 'load':
                    nb = self.odd_int_bytes(t)
                    if nb:   # i24/i40/i48/i56: exactly nb bytes are accessed (little endian), not the size of the C carrier type
                        body.append('%s = %s;' % (self.locals[ins], ' | '.join('((%s)((u8*)%s)[%d] << %d)' % (ct, self.val(ops[0]), k, 8 * k) for k in range(nb))))
                    else:
                        body.append('%s = *%s;' % (self.locals[ins], self.val(ops[0])))
                elif op == 'store':
                    nb = self.odd_int_bytes(TypeOf(ops[0]))
                    if nb:
                        body.append(' '.join('((u8*)%s)[%d] = (u8)(%s >> %d);' % (self.val(ops[1]), k, self.val(ops[0]), 8 * k) for k in range(nb)))
                    else:
                        body.append('*%s = %s;' % (self.val(ops[1]), self.val(ops[0])))
                elif op == 'br':
                    if IsConditional(ins):
                        body.append('if (%s) { %s } else { %s }' % (self.val(GetCondition(ins)), edge(b, GetSuccessor(ins, 0)), edge(b, GetSuccessor(ins, 1))))
                    else:
                        body.append(edge(b, GetSuccessor(ins, 0)))
                elif op == 'switch':
                    cond = self.val(ops[0])
                    s = 'switch (%s) {' % cond
                    for i in range(2, n, 2):
                        s += ' case %s: { %s }' % (self.val(ops[i]), edge(b, ValueAsBasicBlock(ops[i + 1])))
                    s += ' default: { %s } }' % edge(b, GetSwitchDefaultDest(ins))
                    body.append(s)
                elif op == 'ret':
                    body.append('return %s;' % (self.val(ops[0]) if n else ''))
                elif op == 'unreachable':
                    body.append('if (!__verif_exc_pending) __verif_unreachable(); return %s;' % retdefault)
                elif op in ('call', 'invoke'):
                    body.extend(self.call(ins, op, b, edge, retdefault))
                elif op == 'landingpad':
                    clauses = []
                    for i in range(GetNumClauses(ins)):
                        c = GetClause(ins, i)
                        if GetTypeKind(TypeOf(c)) == TK['Array']: raise Unsupported('filter clause')
                        clauses.append(self.tinfo_id(c))
                    cleanup = IsCleanup(ins)
                    r = self.locals[ins]
                    body.append('%s.f0 = (u8*)__verif_exc_obj; %s.f1 = __verif_select(%d, (int[]){%s}); ' % (r, r, len(clauses), ', '.join(map(str, clauses)) or '0'))
                    if not cleanup:
                        body.append('if (%s.f1 == 0) { return %s; }' % (r, retdefault))
                    body.append('__verif_exc_pending = 0;')
                elif op == 'resume':
                    body.append('__verif_exc_pending = 1; return %s;' % retdefault)
                elif op == 'insertelement':
                    r = self.locals[ins]
                    body.append('%s = %s; %s.a[%s] = %s;' % (r, self.val(ops[0]), r, self.idx(ops[2]), self.val(ops[1])))
                elif op == 'extractelement':
                    body.append('%s = %s.a[%s];' % (self.locals[ins], self.val(ops[0]), self.idx(ops[1])))
                elif op in ('fadd', 'fsub', 'fmul', 'fdiv') and GetTypeKind(t) == TK['Vector']:
                    c = {'fadd': '+', 'fsub': '-', 'fmul': '*', 'fdiv': '/'}[op]; r = self.locals[ins]
                    body.append(' '.join('%s.a[%d] = %s.a[%d] %s %s.a[%d];' % (r, i, self.val(ops[0]), i, c, self.val(ops[1]), i) for i in range(GetVectorSize(t))))
                elif op == 'extractvalue':
                    e = self.val(ops[0]); tt = TypeOf(ops[0])
                    idxs = GetIndices(ins)
                    for i in range(GetNumIndices(ins)):
                        if GetTypeKind(tt) == TK['Struct']:
                            k = idxs[i]; nn = CountStructElementTypes(tt); arr = (P * nn)(); GetStructElementTypes(tt, arr)
                            e += '.f%d' % k; tt = arr[k]
                        else:
                            e += '.a[%d]' % idxs[i]; tt = GetElementType(tt)
                    body.append('%s = %s;' % (self.locals[ins], e))
                elif op == 'insertvalue':
                    r = self.locals[ins]; tt = TypeOf(ops[0])
                    body.append('%s = %s;' % (r, self.val(ops[0])))
                    e = r; idxs = GetIndices(ins)
                    for i in range(GetNumIndices(ins)):
                        if GetTypeKind(tt) == TK['Struct']:
                            k = idxs[i]; nn = CountStructElementTypes(tt); arr = (P * nn)(); GetStructElementTypes(tt, arr)
                            e += '.f%d' % k; tt = arr[k]
                        else:
                            e += '.a[%d]' % idxs[i]; tt = GetElementType(tt)
                    body.append('%s = %s;' % (e, self.val(ops[1])))
                else:
                    body.append('%s = %s;' % (self.locals[ins], self.expr(op, ins)))
                ins = GetNextInstruction(ins)
        self.flush_structs()
        return sig, decls, body

    def tinfo_id(self, c):
        if IsNull(c): return -1   # catch (...)
        # strip bitcast
        while GetValueKind(c) == VK['ConstantExpr']: c = GetOperand(c, 0)
        n = vname(c)
        if n not in self.typeinfo_ids: self.typeinfo_ids[n] = len(self.typeinfo_ids) + 1
        return self.typeinfo_ids[n]

    def call(self, ins, op, b, edge, retdefault):
        out = []
        callee = GetCalledValue(ins)
        nargs = GetNumArgOperands(ins)
        args = [GetOperand(ins, i) for i in range(nargs)]
        A = [('0' if GetTypeKind(TypeOf(a)) == TK['Metadata'] else self.val(a)) for a in args]
        t = TypeOf(ins); hasv = GetTypeKind(t) != TK['Void']
        lhs = (self.locals[ins] + ' = ') if hasv else ''
        k = GetValueKind(callee)
        cname = vname(callee) if k == VK['Function'] else None
        may_throw = True
        stmt = None
        if cname and cname.startswith('llvm.'):
            may_throw = False
            base = cname
            if base.startswith('llvm.lifetime') or base.startswith('llvm.assume') or base.startswith('llvm.dbg') or base.startswith('llvm.experimental.noalias') or base.startswith('llvm.invariant'):
                stmt = ';'
            elif base.startswith('llvm.memcpy') or base.startswith('llvm.memmove') or base.startswith('llvm.memset'):
                # constant-length operations on objects whose scalar leaves all have one size are done word-wise with that size
                # (same bytes written; cbmc then sees element-typed accesses instead of 4-8x as many byte updates)
                kind = base.split('.')[1]
                w = 1
                if GetValueKind(args[2]) == VK['ConstantInt']:
                    n = ConstIntGetZExtValue(args[2])
                    ws = [self.leaf_width(args[0])] + ([self.leaf_width(args[1])] if kind != 'memset' else [])
                    if all(x == ws[0] for x in ws) and ws[0] in (2, 4, 8) and n % ws[0] == 0 and n >= ws[0]: w = ws[0]
                if w == 1:
                    stmt = '__verif_%s((u8*)%s, %s%s, %s);' % (kind, A[0], '' if kind == 'memset' else '(u8*)', A[1], A[2])
                elif kind == 'memset':
                    stmt = '__verif_memset%d((u%d*)%s, %s, %dULL);' % (w * 8, w * 8, A[0], A[1], n // w)
                else:
                    stmt = '__verif_%s%d((u%d*)%s, (u%d*)%s, %dULL);' % (kind, w * 8, w * 8, A[0], w * 8, A[1], n // w)
            elif base == 'llvm.eh.typeid.for': stmt = '%s%d;' % (lhs, self.tinfo_id(args[0]))
            elif base.startswith('llvm.expect'): stmt = '%s%s;' % (lhs, A[0])
            elif base == 'llvm.trap': stmt = '__verif_abort(3);'
            elif re.match(r'llvm\.(umin|umax)\.', base):
                c = '<' if 'umin' in base else '>'
                stmt = '%s(%s %s %s ? %s : %s);' % (lhs, A[0], c, A[1], A[0], A[1])
            elif re.match(r'llvm\.(smin|smax)\.', base):
                c = '<' if 'smin' in base else '>'
                stmt = '%s(%s %s %s ? %s : %s);' % (lhs, self.sval(args[0]), c, self.sval(args[1]), A[0], A[1])
            elif re.match(r'llvm\.abs\.', base):
                stmt = '%s%s;' % (lhs, self.mask(t, '(%s < 0 ? -%s : %s)' % (self.sval(args[0]), self.sval(args[0]), self.sval(args[0]))))
            elif re.match(r'llvm\.(fabs|copysign|maxnum|minnum)\.(f32|f64)', base):
                stmt = '%s__verif_%s%s(%s);' % (lhs, base.split('.')[1], '32' if base.endswith('f32') else '64', ', '.join(A))   # bit-level models in rt
            elif re.match(r'llvm\.(fabs|copysign|sqrt|floor|ceil|trunc|rint|nearbyint|round|fma|fmuladd|maxnum|minnum)\.(f32|f64)', base):
                fn = base.split('.')[1]; suf = 'f' if base.endswith('f32') else ''
                fn = {'maxnum': 'fmax', 'minnum': 'fmin', 'fmuladd': '__verif_fmuladd'}.get(fn, fn)
                if fn == '__verif_fmuladd' and getattr(self, 'hook_fp', False):
                    w = '32' if base.endswith('f32') else '64'
                    stmt = '%s__verif_fop%s(0, __verif_fop%s(2, %s, %s), %s);' % (lhs, w, w, A[0], A[1], A[2])
                elif fn == '__verif_fmuladd': stmt = '%s(%s * %s + %s);' % (lhs, A[0], A[1], A[2])
                else: stmt = '%s__builtin_%s%s(%s);' % (lhs, fn, suf, ', '.join(A))
            elif re.match(r'llvm\.(ctpop|ctlz|cttz|bswap|fshl|fshr)\.', base):
                fn = base.split('.')[1]; w = GetIntTypeWidth(t)
                stmt = '%s__verif_%s%d(%s);' % (lhs, fn, w, ', '.join(A))
            elif re.match(r'llvm\.(uadd|usub|umul|sadd|ssub|smul)\.with\.overflow', base):
                fn = base.split('.')[1]; w = GetIntTypeWidth(TypeOf(args[0]))
                r = self.locals[ins]
                stmt = '{ %s tmpv; %s.f1 = __builtin_%s_overflow(%s, %s, &tmpv); %s.f0 = tmpv; }' % (
                    (self.sgn(TypeOf(args[0])) if fn[0] == 's' else self.ctype(TypeOf(args[0]))), r, fn[1:],
                    (self.sval(args[0]) if fn[0] == 's' else A[0]), (self.sval(args[1]) if fn[0] == 's' else A[1]), r)
            else:
                raise Unsupported('intrinsic ' + base)
        elif cname == '__cxa_throw':
            out.append('__verif_exc_obj = (u8*)%s; __verif_exc_type = %d; __verif_exc_pending = 1;' % (A[0], self.tinfo_id(args[1])))
            stmt = ';'
        elif cname in ('__cxa_rethrow',):
            out.append('__verif_exc_pending = 1;'); stmt = ';'
        elif cname == '__cxa_allocate_exception':
            stmt = '%s__verif_exc_buf;' % lhs; may_throw = False
        elif cname in ('__cxa_free_exception', '__cxa_end_catch'):
            stmt = ';'; may_throw = False
        elif cname == '__cxa_begin_catch':
            stmt = '%s%s;' % (lhs, A[0]); may_throw = False
        elif cname in ('__assert_fail',):
            stmt = '__verif_abort(1);'; may_throw = False
        elif cname in ('_ZSt9terminatev', 'abort', '__clang_call_terminate'):
            stmt = '__verif_abort(2);'; may_throw = False
        else:
            if cname:
                fn = self.fname(callee)
                if IsDeclaration(callee): self.stubs.add(cname)
            else:
                fn = '(*%s)' % self.val(callee)
            stmt = '%s%s(%s);' % (lhs, fn, ', '.join(A))
            if cname and (cname.startswith('__verif_') or cname.startswith('hook_') or cname.startswith('nondet_')):
                may_throw = False     # harness hooks are C functions; they never raise
        out.append(stmt)
        if op == 'invoke':
            nd, ud = GetNormalDest(ins), GetUnwindDest(ins)
            if may_throw or cname in ('__cxa_throw', '__cxa_rethrow'):
                out.append('if (__verif_exc_pending) { %s } else { %s }' % (edge(b, ud), edge(b, nd)))
            else:
                out.append(edge(b, nd))
        else:
            if may_throw or cname in ('__cxa_throw', '__cxa_rethrow'):
                out.append('if (__verif_exc_pending) return %s;' % retdefault)
        return out

    # ---------------- typeinfo hierarchy (for the exception model and dynamic_cast)
    STD_BASES = {
        '_ZTISt12length_error': ['_ZTISt11logic_error'], '_ZTISt12out_of_range': ['_ZTISt11logic_error'],
        '_ZTISt16invalid_argument': ['_ZTISt11logic_error'], '_ZTISt12domain_error': ['_ZTISt11logic_error'],
        '_ZTISt11logic_error': ['_ZTISt9exception'], '_ZTISt13runtime_error': ['_ZTISt9exception'],
        '_ZTISt11range_error': ['_ZTISt13runtime_error'], '_ZTISt14overflow_error': ['_ZTISt13runtime_error'],
        '_ZTISt15underflow_error': ['_ZTISt13runtime_error'], '_ZTISt9bad_alloc': ['_ZTISt9exception'],
        '_ZTISt8bad_cast': ['_ZTISt9exception'], '_ZTISt10bad_typeid': ['_ZTISt9exception'],
        '_ZTISt17bad_function_call': ['_ZTISt9exception'], '_ZTISt20bad_array_new_length': ['_ZTISt9bad_alloc'],
        '_ZTISt9exception': [],
    }

    def typeinfo_bases(self):
        """name -> list of direct base typeinfo names, from the module's own _ZTI globals + std table"""
        bases = dict(self.STD_BASES)
        g = GetFirstGlobal(self.mod)
        while g:
            n = vname(g)
            if n.startswith('_ZTI') and not IsDeclaration(g):
                init = GetInitializer(g)
                bl = []
                if GetValueKind(init) == VK['ConstantStruct']:
                    for i in range(2, GetNumOperands(init)):
                        o = GetOperand(init, i)
                        while GetValueKind(o) == VK['ConstantExpr']: o = GetOperand(o, 0)
                        if GetValueKind(o) == VK['GlobalVariable'] and vname(o).startswith('_ZTI'):
                            bl.append(vname(o))
                bases[n] = bl
            g = GetNextGlobal(g)
        return bases

    def typeinfo_graph(self):
        """C helpers describing the class hierarchy recorded in the module's own type_info objects (Itanium ABI layouts):
        number of direct bases, k-th base type_info, its offset in the derived object and whether it is a public non-virtual base"""
        rows = []
        g = GetFirstGlobal(self.mod)
        while g:
            n = vname(g)
            if n.startswith('_ZTI') and not IsDeclaration(g):
                init = GetInitializer(g)
                if GetValueKind(init) == VK['ConstantStruct']:
                    nops = GetNumOperands(init); kind = vstr(GetOperand(init, 0))
                    def ti_of(o):
                        while GetValueKind(o) == VK['ConstantExpr']: o = GetOperand(o, 0)
                        return self.gname(o) if GetValueKind(o) == VK['GlobalVariable'] else None
                    bases = []
                    if '__si_class_type_info' in kind and nops >= 3:
                        b = ti_of(GetOperand(init, 2));  bases = [(b, 0, 1)] if b else []
                    elif '__vmi_class_type_info' in kind and nops >= 4:
                        cnt = ConstIntGetZExtValue(GetOperand(init, 3))
                        for i in range(cnt):
                            b = ti_of(GetOperand(init, 4 + 2 * i)); fl = ConstIntGetZExtValue(GetOperand(init, 5 + 2 * i))
                            if fl >= 1 << 63: fl -= 1 << 64
                            if b: bases.append((b, fl >> 8, 1 if (fl & 2) and not (fl & 1) else 0))
                    rows.append((self.gname(g), bases))
            g = GetNextGlobal(g)
        L = ['int __verif_ti_nbases(u8* ti) {'] + ['  if (ti == (u8*)&%s) return %d;' % (n, len(b)) for n, b in rows] + ['  return 0;', '}']
        L += ['u8* __verif_ti_base(u8* ti, int k) {'] + ['  if (ti == (u8*)&%s && k == %d) return (u8*)%s%s;' % (n, i, '' if False else '&', bb[0]) for n, b in rows for i, bb in enumerate(b)] + ['  return 0;', '}']
        L += ['int64_t __verif_ti_base_off(u8* ti, int k) {'] + ['  if (ti == (u8*)&%s && k == %d) return %dLL;' % (n, i, bb[1]) for n, b in rows for i, bb in enumerate(b)] + ['  return 0;', '}']
        L += ['int __verif_ti_base_public(u8* ti, int k) {'] + ['  if (ti == (u8*)&%s && k == %d) return %d;' % (n, i, bb[2]) for n, b in rows for i, bb in enumerate(b)] + ['  return 0;', '}']
        return '\n'.join(L)

    def exc_table(self):
        bases = self.typeinfo_bases()
        def anc(n, seen):
            if n in seen: return
            seen.add(n)
            for b in bases.get(n, []): anc(b, seen)
        lines = ['int __verif_exc_is_a(int thrown, int caught) {', '  if (thrown == caught) return 1;', '  switch (thrown) {']
        for n, i in sorted(self.typeinfo_ids.items(), key=lambda kv: kv[1]):
            s = set(); anc(n, s)
            ids = sorted(self.typeinfo_ids[a] for a in s if a in self.typeinfo_ids and a != n)
            if ids:
                lines.append('    case %d: return %s; /* %s */' % (i, ' || '.join('caught == %d' % k for k in ids), n))
        lines += ['    default: return 0;', '  }', '}']
        return '\n'.join(lines)

    def run(self, inert=()):
        for n in sorted(self.STD_BASES): self.typeinfo_ids.setdefault(n, len(self.typeinfo_ids) + 1)   # fixed ids for the std:: exceptions (rt models throw them)
        f = GetFirstFunction(self.mod)
        protos = []; bodies = []; hdr = []
        self.defined_funcs = []; self.ext_funcs = {}; self.inert_used = []
        while f:
            name = vname(f)
            if not name.startswith('llvm.'):
                ft = GlobalGetValueType(f)
                if IsDeclaration(f):
                    if name not in HANDLED_EXTERNALS:
                        rt = self.ctype(GetReturnType(ft))
                        n = CountParamTypes(ft); arr = (P * n)(); GetParamTypes(ft, arr)
                        ps = [self.ctype(arr[i]) for i in range(n)]
                        va = IsFunctionVarArg(ft)
                        cn = self.fname(f)
                        self.ext_funcs[name] = cn
                        if name in inert or any(re.fullmatch(p, name) for p in inert):
                            self.inert_used.append(name)
                            args = ', '.join('%s p%d' % (p, i) for i, p in enumerate(ps)) + (', ...' if va and ps else '')
                            ret = '' if rt == 'void' else (' return (%s){0};' % rt if (rt.startswith('struct') or re.match(r'A\d+$', rt)) else ' return (%s)0;' % rt)
                            bodies.append('%s %s(%s) {%s } /* inert stub: %s */\n' % (rt, cn, args or 'void', ret, name))
                        if va: ps.append('...')
                        protos.append('%s %s(%s); /* external: %s */' % (rt, cn, ', '.join(ps) if ps else 'void', name))
                else:
                    sig, decls, body = self.translate_function(f)
                    self.defined_funcs.append(name)
                    protos.append(sig + ';')
                    if name.startswith('w_'): hdr.append(sig + ';')
                    bodies.append('%s {\n  %s\n  %s\n}\n' % (sig, '\n  '.join(decls), '\n  '.join(body)))
            f = GetNextFunction(f)
        # globals
        gl = []
        g = GetFirstGlobal(self.mod)
        gdecl = []; self.ext_globals = []
        while g:
            name = vname(g)
            if name.startswith('llvm.'):
                g = GetNextGlobal(g); continue
            vt = GlobalGetValueType(g); self.ensure_defined(vt)
            ct = self.ctype(vt)
            if IsDeclaration(g):
                # external object (type_info / vtable of libstdc++ classes, __dso_handle, ...): only its
                # address matters to the translated code, so a private zero object stands for it
                self.ext_globals.append(name)
                if name.startswith('_ZTI') and ct == 'u8*':
                    # type_info of a fundamental/libstdc++ type: {vtable pointer, name}; the inline type_info::operator== reads the name
                    gdecl.append('u8* %s[2] = {0, (u8*)"%s"}; /* external type_info %s: name is the mangled type */' % (self.gname(g), name[4:], name))
                else:
                    gdecl.append('%s %s; /* external object %s */' % (ct, self.gname(g), name))
            else:
                gdecl.append('%s %s;' % (ct, self.gname(g)))
                gl.append((g, ct))
            g = GetNextGlobal(g)
        ginit = []
        for g, ct in gl:
            ginit.append('%s %s = %s;' % (ct, self.gname(g), self.init(GetInitializer(g))))
        self.flush_structs()
        tids = ['int __verif_tid_%s = %d;' % (cid(n), self.typeinfo_ids[n]) for n in sorted(self.STD_BASES)]
        c = '\n'.join(['#include "verif_rt.h"'] + self.typedefs + gdecl + protos + ginit + tids + [self.exc_table(), self.typeinfo_graph()] + bodies)
        h = '\n'.join(['/* generated by ir2c.py: prototypes of the translated wrappers */', '#include "verif_rt.h"'] +
                      [t for t in self.typedefs if self._hdr_needs(t, hdr)] + hdr) + '\n'
        return c, h

    def _hdr_needs(self, typedef, hdr):
        # wrappers are required to use only scalar and u8* parameters, so no typedef is needed
        return False

HANDLED_EXTERNALS = ('__cxa_throw', '__cxa_allocate_exception', '__cxa_free_exception', '__cxa_begin_catch', '__cxa_end_catch',
                     '__gxx_personality_v0', '__assert_fail', '_ZSt9terminatev', 'abort', '__cxa_rethrow')

if __name__ == '__main__':
    import argparse
    ap = argparse.ArgumentParser()
    ap.add_argument('ll'); ap.add_argument('outbase')
    ap.add_argument('--inert', default='')
    ap.add_argument('--lifetime-heap', action='store_true')
    ap.add_argument('--hook-fp', action='store_true', help='route scalar float/double + - * / through the memoising rt functions')
    ap.add_argument('--hook-arith', nargs='?', const='nonconst', default='', help='route non-constant 32/64-bit mul/udiv/urem through the memoising rt functions')
    a = ap.parse_args()
    tr = Translator(a.ll)
    tr.lifetime_heap = a.lifetime_heap
    tr.hook_arith = a.hook_arith
    tr.hook_fp = a.hook_fp
    inert = set(x for x in a.inert.split(';;') if x)
    c, h = tr.run(inert)
    open(a.outbase + '.c', 'w').write(c)
    open(a.outbase + '.h', 'w').write(h)
    json.dump({'defined': tr.defined_funcs, 'externals': tr.ext_funcs, 'external_objects': tr.ext_globals,
               'typeinfo_ids': tr.typeinfo_ids, 'inert': sorted(tr.inert_used)}, open(a.outbase + '.json', 'w'), indent=1)
