#!/usr/bin/env python3
"""Driver of the xtl solver-based checks (DESIGN.md section 1).

  ./check <ID> [--tier quick|thorough] [--only REGEX] [--jobs N] [--keep]
  ./check <ID> --replay <dir>

For one property it (re)builds everything from /repo's current working tree:
  wrappers.cpp --clang++ -O1 -emit-llvm--> IR --ir2c.py--> C --cbmc--> verdict per obligation
validates the translation natively against the g++ build of the same wrappers, replays every
counterexample against the real code, applies known_findings.json, writes evidence/<ID>.json,
prints VIOLATION / KNOWN-FINDING lines and exits 0 (held), 1 (violation) or 2 (inconclusive).
"""
import argparse, threading, concurrent.futures as cf, hashlib, importlib.util, json, os, re, resource, shutil, subprocess, sys, time

ROOT = os.path.dirname(os.path.dirname(os.path.abspath(__file__)))
TAG = os.environ.get('VERIF_TAG', '')   # set by tools/seedrun.sh: separate build/replay/evidence directories for runs against a scratch tree
OUT = os.path.join(ROOT, 'build', 'seedruns', TAG) if TAG else ROOT
REPO = os.environ.get('VERIF_REPO', '/repo')
RT = os.path.join(ROOT, 'rt')
CLANG = 'clang++-14'
IRFLAGS = ["-ftemplate-depth=2048", '-std=c++17', '-O1', '-fno-vectorize', '-fno-slp-vectorize', '-fno-unroll-loops', '-DNDEBUG',
           '-S', '-emit-llvm']
REALFLAGS = ['-std=c++17', '-O1', '-DNDEBUG', '-w', '-ftemplate-depth=2048']
BACKENDS = {
    'minisat': [], 'cadical': ['--sat-solver', 'cadical'], 'kissat': ['--external-sat-solver', 'kissat'],
    'z3': ['--z3'], 'cvc5': ['--cvc5'],
}
RT_LOOPS = ['__verif_memset.0', '__verif_memcpy.0', '__verif_memmove.0', '__verif_memmove.1', 'rt_alloc.0'] + \
    ['__verif_mem%s%d.%d' % (k, w, i) for w in (16, 32, 64) for k, i in (('set', 0), ('cpy', 0), ('move', 0), ('move', 1))]
CBMC_BASE = ['--unwinding-assertions', '--drop-unused-functions', '--no-malloc-may-fail',
             '--no-signed-overflow-check', '--no-undefined-shift-check', '--no-pointer-primitive-check',
             '--object-bits', '10', '--json-ui']


class Unit:
    """one wrappers translation unit + the harness sources that drive it"""
    def __init__(self, name, wrappers, harness, cxxflags=(), inert=(), rt=('verif_rt.c',), tv=None, ir2c_flags=(),
                 real_extra=(), tv_iters=3000, hooks_in_harness=True, inc=()):
        self.name = name; self.wrappers = wrappers; self.harness = list(harness); self.cxxflags = list(cxxflags)
        self.inert = list(inert); self.rt = list(rt); self.tv = tv or []; self.ir2c_flags = list(ir2c_flags)
        self.real_extra = list(real_extra); self.tv_iters = tv_iters; self.inc = ['-I' + os.path.join(ROOT, 'props', x) for x in inc]


class Ob:
    """one proof obligation = one cbmc run of one harness function"""
    def __init__(self, name, unit, fn, defines=(), unwind=8, unwindset=(), backend='minisat', timeout=None,
                 flags=(), bound='', kf=(), min_witnesses=1, note='', mem_unwind=130):
        self.name = name; self.unit = unit; self.fn = fn; self.defines = list(defines); self.unwind = unwind
        self.unwindset = list(unwindset); self.backend = backend; self.timeout = timeout; self.flags = list(flags)
        self.mem_unwind = mem_unwind; self.bound = bound; self.kf = list(kf); self.min_witnesses = min_witnesses; self.note = note


def sh(cmd, timeout=None, cwd=None, mem_gb=None, env=None):
    def lim():
        if mem_gb:
            resource.setrlimit(resource.RLIMIT_AS, (int(mem_gb * 2**30), int(mem_gb * 2**30)))
        os.setsid()
        try:
            import ctypes; ctypes.CDLL('libc.so.6').prctl(1, 9)   # PR_SET_PDEATHSIG: do not outlive the driver
        except Exception: pass
    t0 = time.time()
    try:
        p = subprocess.Popen(cmd, stdout=subprocess.PIPE, stderr=subprocess.PIPE, cwd=cwd, preexec_fn=lim, env=env)
        try:
            out, err = p.communicate(timeout=timeout)
        except subprocess.TimeoutExpired:
            try: os.killpg(p.pid, 9)
            except Exception: pass
            out, err = p.communicate()
            return -999, out.decode(errors='replace'), err.decode(errors='replace'), time.time() - t0
        return p.returncode, out.decode(errors='replace'), err.decode(errors='replace'), time.time() - t0
    except OSError as e:
        return -998, '', str(e), time.time() - t0


class Inconclusive(Exception):
    pass


class Runner:
    def __init__(self, prop, tier, jobs, only=None, keep=False, seed=0):
        self.prop = prop; self.id = prop.ID; self.tier = tier; self.jobs = jobs; self.only = only; self.keep = keep
        self.seed = seed
        self.bdir = os.path.join(ROOT, 'build', self.id + ('.' + TAG if TAG else ''))
        self.units = {}; self.log = []; self.gb_cache = {}; self.gb_lock = threading.Lock(); self.san_locks = {}
        self.kf_all = json.load(open(os.path.join(ROOT, 'known_findings.json')))['findings']
        self.kf_open = [k for k in self.kf_all if k['property'] == self.id and k['status'] == 'open']

    def say(self, *a):
        print(*a, flush=True)

    # ------------------------------------------------------------------ build
    def build_unit(self, u):
        d = os.path.join(self.bdir, u.name); os.makedirs(d, exist_ok=True)
        src = os.path.join(d, 'wrappers.cpp')
        text = u.wrappers() if callable(u.wrappers) else open(os.path.join(ROOT, 'props', self.id, u.wrappers)).read()
        open(src, 'w').write(text)
        inc = ['-I' + os.path.join(REPO, 'include'), '-I' + os.path.join(ROOT, 'props', self.id), '-I' + RT] + u.inc
        ll = os.path.join(d, 'wrappers.ll')
        rc, out, err, t = sh([CLANG] + IRFLAGS + u.cxxflags + inc + [src, '-o', ll], timeout=600)
        if rc != 0:
            raise Inconclusive('clang++ failed on %s wrappers (does /repo still compile?):\n%s' % (u.name, err[-3000:]))
        rc, out, err, t2 = sh([sys.executable, os.path.join(ROOT, 'tools', 'ir2c.py'), ll, os.path.join(d, 'gen'),
                               '--inert', ';;'.join(u.inert)] + u.ir2c_flags, timeout=600)
        if rc != 0:
            raise Inconclusive('ir2c failed on %s: %s' % (u.name, err[-3000:]))
        meta = json.load(open(os.path.join(d, 'gen.json')))
        # every external function must be modelled in rt/ or declared inert for this unit
        rtsyms = set()
        for f in u.rt:
            rtsyms |= set(re.findall(r'\b(ext_\w+)\s*\(', open(os.path.join(RT, f)).read()))
        hsyms = set()
        for hp in self.hpaths(u):
            txt = open(hp).read()
            for incf in re.findall(r'#include "([^"]+)"', txt):     # harness sources that are composed of another harness file of the same property
                ip = os.path.join(os.path.dirname(hp), incf)
                if os.path.exists(ip): txt += open(ip).read()
            hsyms |= set(re.findall(r'\b((?:ext_|hook_|__verif_)\w+)\s*\(', txt))
        unmod = [n for n, c in meta['externals'].items()
                 if c not in rtsyms and c not in hsyms and n not in meta['inert'] and not n.startswith('__verif_')]
        if unmod:
            raise Inconclusive('unit %s: external functions without model or inert declaration: %s' % (u.name, unmod))
        # real code, native
        real = os.path.join(d, 'real.o')
        rc, out, err, t3 = sh(['g++'] + REALFLAGS + u.cxxflags
                              + inc + ['-c', src, '-o', real], timeout=600)
        if rc != 0:
            raise Inconclusive('g++ failed on %s wrappers:\n%s' % (u.name, err[-3000:]))
        # the translated C, compiled natively once (used by every translation-validation harness of this unit)
        rc, out, err, t4 = sh(['gcc', '-O1', '-w', '-I' + RT, '-c', os.path.join(d, 'gen.c'), '-o', os.path.join(d, 'gen.o')], timeout=900)
        if rc != 0:
            raise Inconclusive('gcc failed on the generated C of %s:\n%s' % (u.name, err[-3000:]))
        u.dir = d; u.meta = meta; u.build_s = t + t2 + t3 + t4
        return u

    def hpaths(self, u):
        return [h if os.path.isabs(h) else os.path.join(ROOT, 'props', self.id, h) for h in u.harness]

    # ------------------------------------------------------------------ translation validation
    def tv(self, u, fn, defines):
        d = u.dir
        tag = fn + hashlib.md5(' '.join(defines).encode()).hexdigest()[:6]
        common = ['-O1', '-w', '-DVERIF_TV', '-DHARNESS=' + fn, '-I' + RT, '-I' + d, '-I' + os.path.join(ROOT, 'props', self.id)] + u.inc + ['-D' + x for x in defines]
        gen = os.path.join(d, 'tv_gen_' + tag); real = os.path.join(d, 'tv_real_' + tag)
        rc, out, err, _ = sh(['gcc'] + common + self.hpaths(u) + [os.path.join(RT, f) for f in u.rt] +
                             [os.path.join(d, 'gen.o'), os.path.join(RT, 'native_main.c'), '-o', gen, '-lm'], timeout=600)
        if rc != 0: raise Inconclusive('gcc failed on generated C of %s/%s:\n%s' % (u.name, fn, err[-3000:]))
        rc, out, err, _ = sh(['gcc'] + common + ['-DVERIF_REAL'] + self.hpaths(u) + [os.path.join(RT, 'native_main.c'), os.path.join(d, 'real.o')] +
                             u.real_extra + ['-o', real, '-lstdc++', '-lm'], timeout=600)
        if rc != 0: raise Inconclusive('link of real wrappers failed for %s/%s:\n%s' % (u.name, fn, err[-3000:]))
        seed = str(self.seed + 1)
        r1 = sh([gen, seed, str(u.tv_iters)], timeout=300); r2 = sh([real, seed, str(u.tv_iters)], timeout=300)
        res = {'unit': u.name, 'harness': fn, 'vectors': u.tv_iters, 'translated': r1[1].strip().splitlines()[-1:] , 'real': r2[1].strip().splitlines()[-1:],
               'agree': r1[0] == 0 and r2[0] == 0 and r1[1] == r2[1]}
        if not res['agree']:
            res['translated_out'] = r1[1][-1500:] + r1[2][-500:]; res['real_out'] = r2[1][-1500:] + r2[2][-500:]
        return res

    # ------------------------------------------------------------------ cbmc
    def cbmc_cmd(self, ob, extra_defines=(), trace_property=None, backend=None, unwindset_override=None):
        u = self.units[ob.unit]
        gb, hloops = self.goto_binary(u, list(ob.defines) + list(extra_defines))
        cmd = ['cbmc', gb]
        cmd += ['--function', ob.fn, '--unwind', str(ob.unwind)] + CBMC_BASE + BACKENDS[backend or ob.backend] + ob.flags
        ov = dict(getattr(ob, 'unwind_refined', {})); ov.update(unwindset_override or {})
        us = ['%s:%d' % kv for kv in ov.items()] + [x for x in ob.unwindset if x.split(':')[0] not in ov]
        us += ['%s:%d' % (l, ob.mem_unwind) for l in RT_LOOPS if not any(x.startswith(l + ':') for x in us)]
        hu = getattr(ob, 'harness_unwind', None)
        if hu: us += ['%s:%d' % (l, hu) for l in hloops if not any(x.startswith(l + ':') for x in us)]
        cmd += ['--unwindset', ','.join(us)]
        if trace_property: cmd += ['--trace', '--property', trace_property]
        return cmd

    def goto_binary(self, u, defines):
        """harness + rt models + translated C compiled ONCE per (unit, defines) with goto-cc; every obligation with the same defines
        starts from that goto binary (parsing the sources again for each obligation dominated the cost of small obligations)"""
        key = (u.name, tuple(defines))
        with self.gb_lock:
            ev = self.gb_cache.get(key)
            if ev is None:
                ev = self.gb_cache[key] = {'lock': threading.Lock(), 'path': None, 'err': None}
        with ev['lock']:
            if ev['path'] is None and ev['err'] is None:
                out = os.path.join(u.dir, 'h_%s.gb' % hashlib.md5(' '.join(defines).encode()).hexdigest()[:10])
                cmd = ['goto-cc', '-D__CPROVER__', '-o', out] + self.hpaths(u) + [os.path.join(RT, f) for f in u.rt] + [os.path.join(u.dir, 'gen.c')]
                cmd += ['-I' + RT, '-I' + u.dir, '-I' + os.path.join(ROOT, 'props', self.id)] + u.inc + ['-D' + x for x in defines]
                rc, o, e, t = sh(cmd, timeout=900)
                if rc != 0: ev['err'] = (o + e)[-2000:]
                else:
                    # loops of the harness side (harness sources and rt models): their bounds are constants of the harness and get
                    # ob.harness_unwind, so that --unwind can stay at the (small) bound meant for the loops of the code under test
                    ev['hloops'] = []
                    rc2, o2, e2, t2 = sh(['cbmc', out, '--show-loops', '--json-ui'], timeout=300)
                    try:
                        hp = set(os.path.abspath(x) for x in self.hpaths(u))
                        for el in json.loads(o2):
                            for l in el.get('loops', []):
                                if os.path.abspath(l.get('sourceLocation', {}).get('file', '')) in hp: ev['hloops'].append(l['name'])
                    except Exception: pass
                    ev['path'] = out
        if ev['err']: raise Inconclusive('goto-cc failed for unit %s %s:\n%s' % (u.name, defines, ev['err']))
        self.last_hloops = ev.get('hloops', [])
        return ev['path'], ev.get('hloops', [])

    def run_cbmc(self, ob, extra_defines=(), trace_property=None, backend=None, timeout=None, unwindset_override=None):
        to = timeout or ob.timeout or (180 if self.tier == 'quick' else 1800)
        cmd = self.cbmc_cmd(ob, extra_defines, trace_property, backend, unwindset_override)
        env = dict(os.environ); env['PATH'] = os.path.join(ROOT, 'tools', 'shim') + ':' + env['PATH']
        rc, out, err, t = sh(cmd, timeout=to, mem_gb=12, env=env)
        r = {'rc': rc, 'time_s': round(t, 2), 'props': [], 'errors': [], 'cmd': ' '.join(cmd), 'backend_used': backend or ob.backend}
        if rc == -999:
            r['status'] = 'timeout'; return r
        try:
            js = json.loads(out)
        except Exception:
            r['status'] = 'error'; r['errors'].append((out[-800:] + err[-800:])); return r
        for e in js:
            if e.get('messageType') == 'ERROR': r['errors'].append(e.get('messageText', ''))
            if e.get('messageType') == 'WARNING' and 'no body for function' in e.get('messageText', ''):
                r['errors'].append(e['messageText'])
            if 'result' in e:
                for p in e['result']:
                    r['props'].append({'property': p['property'], 'description': p.get('description', ''), 'status': p['status'],
                                       'trace': p.get('trace')})
        if r['errors'] or not r['props']:
            r['status'] = 'error' if rc not in (-9, 137) else 'oom'
            if rc < 0 and not r['errors']: r['status'] = 'oom'
            return r
        focus = getattr(ob, 'focus', None)   # obligations shared by two properties: assertions tagged for the other property do not decide this one
        other = lambda d: focus is not None and re.match(r'^C\d\d: ', d) is not None and not d.startswith(focus)
        bad = [p for p in r['props'] if not p['description'].startswith('WITNESS:') and p['status'] != 'SUCCESS' and not other(p['description'])]
        wit = [p for p in r['props'] if p['description'].startswith('WITNESS:')]
        r['witnesses_fired'] = sorted(set(p['description'][8:] for p in wit if p['status'] == 'FAILURE'))
        r['witnesses_dead'] = sorted(set(p['description'][8:] for p in wit if p['status'] != 'FAILURE') - set(r['witnesses_fired']))
        r['failed'] = [(p['property'], p['description']) for p in bad]
        r['n_props'] = len(r['props'])
        real = [p for p in bad if not re.search(r'\.unwind\.\d+$', p['property'])]
        r['status'] = 'fail' if real else ('unwind' if bad else 'pass')
        if real: r['failed'] = [(p['property'], p['description']) for p in real]
        elif bad: r['errors'].append('unwinding bound too small: ' + ', '.join(p['property'] for p in bad))
        return r

    def decide(self, ob, extra_defines=()):
        """run with the pinned back end; on timeout/oom retry once on another one"""
        r = self.run_cbmc(ob, extra_defines)
        # automatic refinement of loop bounds: an unwinding assertion that fails names its loop; that loop's bound is raised
        # (x4, capped) and the obligation is run again.  A bound that is still too small after the refinements is INCONCLUSIVE.
        extra_us = {}
        for _ in range(5):
            if r['status'] != 'unwind': break
            for pn, _d in r['failed']:
                m = re.match(r'^(.*)\.unwind\.(\d+)$', pn)
                if m:
                    lid = '%s.%s' % (m.group(1), m.group(2))
                    cur = extra_us.get(lid) or next((int(x.split(':')[1]) for x in ob.unwindset if x.startswith(lid + ':')), None) or \
                        (ob.mem_unwind if lid in RT_LOOPS else ob.unwind)
                    extra_us[lid] = min(cur * 4, 4200)
            r = self.run_cbmc(ob, extra_defines, unwindset_override=extra_us)
            r['unwind_refined'] = dict(extra_us)
        ob.unwind_refined = dict(extra_us)
        if r['status'] in ('timeout', 'oom') and not getattr(ob, 'hunt', False):
            alt = 'cadical' if ob.backend != 'cadical' else 'minisat'
            r2 = self.run_cbmc(ob, extra_defines, backend=alt)
            r2['retried_from'] = ob.backend + ':' + r['status']
            if r2['status'] in ('pass', 'fail'): return r2
        return r

    # ------------------------------------------------------------------ replay
    @staticmethod
    def cinit(v):
        if v is None: return '0'
        if 'members' in v:
            return '{' + ', '.join(Runner.cinit(m['value']) for m in v['members'] if not m['name'].startswith('$pad')) + '}'
        if 'elements' in v:
            return '{' + ', '.join(Runner.cinit(e['value']) for e in v['elements']) + '}'
        if 'binary' in v and v.get('name') != 'pointer':
            b = v['binary']; x = int(b, 2)
            if len(b) > 64: return '(((unsigned __int128)0x%xULL << 64) | 0x%xULL)' % (x >> 64, x & (2**64 - 1))
            return '0x%xULL' % x
        return '0'

    @staticmethod
    def bits_to_c(bits):
        x = int(bits.replace(' ', ''), 2); n = len(bits.replace(' ', ''))
        if n > 64: return '(((unsigned __int128)0x%xULL << 64) | 0x%xULL)' % (x >> 64, x & (2**64 - 1))
        return '0x%xULL' % x

    def trace_values(self, ob, extra_defines, prop_name, backend):
        """inputs of the harness function from cbmc's plain-text counterexample trace (streamed: JSON traces of loop-heavy
        obligations reached gigabytes): first assignment to each simple identifier inside the harness function"""
        cmd = [c for c in self.cbmc_cmd(ob, extra_defines, prop_name, backend) if c != '--json-ui']
        tf = os.path.join(self.units[ob.unit].dir, 'trace_%s.txt' % hashlib.md5((ob.name + prop_name).encode()).hexdigest()[:10])
        env = dict(os.environ); env['PATH'] = os.path.join(ROOT, 'tools', 'shim') + ':' + env['PATH']
        with open(tf, 'w') as out:
            try: subprocess.run(cmd, stdout=out, stderr=subprocess.DEVNULL, timeout=ob.timeout or 900, env=env)
            except subprocess.TimeoutExpired: pass
        vals = {}; fn = None
        hdr = re.compile(r'^State \d+ file \S+ function (\S+) line \d+')
        asg = re.compile(r'^  ([A-Za-z_]\w*)=(.*)$')
        with open(tf, errors='replace') as f:
            for line in f:
                m = hdr.match(line)
                if m: fn = m.group(1); continue
                if fn != ob.fn: continue
                m = asg.match(line.rstrip('\n'))
                if not m or m.group(1) in vals: continue
                rhs = m.group(2)
                ma = re.search(r'\(\{ ([01 ,]+) \}\)$', rhs)
                if ma: vals[m.group(1)] = '{' + ', '.join(self.bits_to_c(b) for b in ma.group(1).split(',')) + '}'; continue
                ms = re.search(r'\(([01 ]+)\)$', rhs)
                if ms and not re.match(r'^[A-Za-z_]', rhs): vals[m.group(1)] = self.bits_to_c(ms.group(1))
        try: os.remove(tf)
        except OSError: pass
        return vals

    def make_replay(self, ob, extra_defines, prop_name, descr, backend=None):
        u = self.units[ob.unit]
        rdir = os.path.join(OUT, 'replay', self.id, re.sub(r'[^A-Za-z0-9_.-]', '_', ob.name))
        shutil.rmtree(rdir, ignore_errors=True); os.makedirs(rdir)
        vals = self.trace_values(ob, extra_defines, prop_name, backend)
        with open(os.path.join(rdir, 'replay_values.h'), 'w') as f:
            f.write('/* inputs of the cbmc counterexample: property %s obligation %s\n   violated: %s (%s) */\n' % (self.id, ob.name, descr, prop_name))
            for k, v in vals.items():
                f.write('#define REPLAY_%s %s\n' % (k, v))
            # inputs of the other harness functions of the same source file (never executed in this replay)
            for hp in self.hpaths(u):
                txt = open(hp).read()
                for m in re.finditer(r'\bIN\(\s*[^,()]+,\s*(\w+)\s*\)', txt):
                    if m.group(1) not in vals: vals[m.group(1)] = None; f.write('#define REPLAY_%s 0\n' % m.group(1))
                for m in re.finditer(r'\bIN_ARR\(\s*[^,()]+,\s*(\w+)\s*,', txt):
                    if m.group(1) not in vals: vals[m.group(1)] = None; f.write('#define REPLAY_%s {0}\n' % m.group(1))
        defs = list(ob.defines) + list(extra_defines)
        meta = {'property': self.id, 'obligation': ob.name, 'unit': ob.unit, 'function': ob.fn, 'defines': defs,
                'violated': descr, 'cbmc_property': prop_name, 'tier': self.tier}
        json.dump(meta, open(os.path.join(rdir, 'replay.json'), 'w'), indent=1)
        status, out = self.run_replay(rdir, u, ob.fn, defs)
        open(os.path.join(rdir, 'STATUS'), 'w').write(status + '\n' + out)
        return rdir, status, out

    def run_replay(self, rdir, u, fn, defs):
        """build the harness against the REAL wrappers (g++ -fsanitize=address,undefined) with the recorded inputs"""
        d = u.dir
        inc = ['-I' + os.path.join(REPO, 'include'), '-I' + os.path.join(ROOT, 'props', self.id), '-I' + RT] + u.inc
        san = ['-fsanitize=address,undefined', '-fno-sanitize-recover=undefined', '-g']
        real = os.path.join(d, 'real_san.o')
        with self.gb_lock:
            lk = self.san_locks.setdefault(u.name, threading.Lock())
        with lk:
            if not os.path.exists(real):
                rc, out, err, _ = sh(['g++'] + REALFLAGS + san + u.cxxflags + inc + ['-c', os.path.join(d, 'wrappers.cpp'), '-o', real + '.tmp'], timeout=900)
                if rc != 0: return 'replay-build-failed', err[-2000:]
                os.rename(real + '.tmp', real)
        exe = os.path.join(rdir, 'replay')
        rc, out, err, _ = sh(['gcc', '-O0', '-g', '-w', '-DVERIF_REPLAY', '-DVERIF_REAL', '-DHARNESS=' + fn, '-I' + rdir, '-I' + RT, '-I' + d,
                              '-I' + os.path.join(ROOT, 'props', self.id)] + u.inc + ['-D' + x for x in defs] + san + self.hpaths(u) +
                             [os.path.join(RT, 'native_main.c'), real] + u.real_extra + ['-o', exe, '-lstdc++', '-lm'], timeout=600)
        if rc != 0: return 'replay-build-failed', err[-2000:]
        env = dict(os.environ); env['ASAN_OPTIONS'] = 'detect_leaks=0'
        rc, out, err, _ = sh([exe], timeout=120, env=env)
        txt = (out + err)[-3000:]
        if rc == 0: return 'solver-only', txt
        if rc == 3 and 'REPLAY-ASSUME-FALSE' in out: return 'assumption-false', txt
        return 'reproduced', txt

    def handle_fail(self, name, ob, kfd, r):
        """a failed obligation: build and run the native replay; for a lockstep divergence decide again without sharing"""
        h = {'extra_q': 0, 'extra_s': 0.0, 'failed': r['failed']}
        # prefer an assertion of the harness itself (a statement of the property) over failures inside models
        own = [x for x in r['failed'] if x[0].startswith(ob.fn + '.')]
        lock = [x for x in r['failed'] if x[1].startswith('lockstep:')]
        pn, descr = (own or r['failed'])[0]
        # cbmc's own memory-safety properties do not depend on the shared multiplier circuit: when one of them fails it is reported
        # first (an out-of-bounds read that leaves the result intact would otherwise only show as a lockstep divergence)
        builtin = [x for x in r['failed'] if not re.search(r'\.assertion\.\d+$', x[0]) and not x[1].startswith('lockstep:')]
        builtin.sort(key=lambda x: x[0].startswith('__verif_'))   # failures located in the translated xtl code first
        if lock and builtin:
            rdir, status, out = self.make_replay(ob, kfd, builtin[0][0], builtin[0][1], backend=r.get('backend_used'))
            h.update(kind='violation', rdir=rdir, status=status, out=out, failed=builtin + [x for x in r['failed'] if x not in builtin])
            return h
        if lock:
            # reference model and (changed?) implementation no longer multiply the same operands in the same order, so the
            # shared-circuit verdicts mean nothing.  The input on which the operand sequences diverge is replayed natively
            # (real arithmetic on both sides): if the results differ there, that is the violation.  Otherwise the obligation
            # is decided again without sharing (-DNO_LOCKSTEP) on the SMT back end with a long budget.
            rdir, status, out = self.make_replay(ob, kfd, lock[0][0], lock[0][1], backend=r.get('backend_used'))
            if status != 'reproduced':
                r2 = self.run_cbmc(ob, list(kfd) + ['NO_LOCKSTEP'], backend=getattr(ob, 'fallback_backend', 'cvc5'), timeout=900)
                h['extra_q'] += 1; h['extra_s'] += r2['time_s']
                if r2['status'] == 'pass': h.update(kind='pass', r=r2); return h
                if r2['status'] != 'fail':
                    h.update(kind='inconclusive', msg='obligation %s: operand sequences of implementation and reference differ and the unshared query gave %s' % (name, r2['status'])); return h
                own = [x for x in r2['failed'] if x[0].startswith(ob.fn + '.')]
                pn, descr = (own or r2['failed'])[0]; h['failed'] = r2['failed']
                rdir, status, out = self.make_replay(ob, list(kfd) + ['NO_LOCKSTEP'], pn, descr, backend=r2.get('backend_used'))
        else:
            rdir, status, out = self.make_replay(ob, kfd, pn, descr, backend=r.get('backend_used'))
        h.update(kind='violation', rdir=rdir, status=status, out=out)
        return h

    # ------------------------------------------------------------------ main flow
    def run(self):
        t0 = time.time()
        shutil.rmtree(self.bdir, ignore_errors=True); os.makedirs(self.bdir)
        self.prop.BDIR = self.bdir
        units = self.prop.units(self.tier); obs = self.prop.obligations(self.tier)
        if self.only:
            obs = [o for o in obs if re.search(self.only, o.name)]
            units = [u for u in units if any(o.unit == u.name for o in obs)]
        ev = {'property_id': self.id, 'tier': self.tier, 'seed': self.seed, 'level': 'model_checking', 'violations': 0}
        results = {}; tvres = []; violations = []; known = []; inconclusive = []; handled = {}; probes_run = []
        try:
            with cf.ThreadPoolExecutor(self.jobs) as ex:
                for u in ex.map(self.build_unit, units): self.units[u.name] = u
                self.say('[%s] built %d unit(s) in %.1fs' % (self.id, len(units), time.time() - t0))
                # translation validation
                futs = []
                for u in units:
                    for (fn, defines) in u.tv: futs.append(ex.submit(self.tv, u, fn, defines))
                for f in futs:
                    r = f.result(); tvres.append(r)
                    if not r['agree']:
                        inconclusive.append('translation validation disagrees for %s/%s:\n--- translated\n%s\n--- real\n%s' %
                                            (r['unit'], r['harness'], r.get('translated_out'), r.get('real_out')))
                self.say('[%s] translation validation: %d harnesses, %d disagreements' % (self.id, len(tvres), sum(1 for r in tvres if not r['agree'])))
                # obligations (known findings excluded by their -DKF_<id> switch)
                def job(ob):
                    kfd = ['KF_EXCLUDE_' + k['id'].replace('-', '_') for k in self.kf_open if re.search(k['obligations'], ob.name)]
                    return ob, kfd, self.decide(ob, kfd)
                for ob, kfd, r in ex.map(job, obs):
                    results[ob.name] = (ob, kfd, r)
                # confirmation runs of the open known findings: must still fail inside the predicate
                kjobs = []
                for k in self.kf_open:
                    cands = [o for o in obs if re.search(k['confirm_obligation'], o.name)]
                    if cands: kjobs.append((k, cands[0]))
                def kjob(a):
                    k, ob = a
                    return k, ob, self.decide(ob, ['KF_ONLY_' + k['id'].replace('-', '_')])
                kres = list(ex.map(kjob, kjobs))
                # counterexamples are replayed (and lockstep divergences re-decided) in parallel
                fails = [(name, ob, kfd, r) for name, (ob, kfd, r) in results.items() if r['status'] == 'fail']
                handled = dict(zip([f[0] for f in fails], ex.map(lambda f: self.handle_fail(*f), fails)))
        except Inconclusive as e:
            inconclusive.append(str(e)); kres = []
        # ---- compile-time probes (clauses of a property whose observable is the compiler's verdict, e.g. "usable in constant expressions")
        for (pname, text, what) in (self.prop.probes(self.tier) if hasattr(self.prop, 'probes') and not self.only else []):
            pdir = os.path.join(OUT, 'replay', self.id, 'probe_' + pname); shutil.rmtree(pdir, ignore_errors=True); os.makedirs(pdir)
            src = os.path.join(pdir, 'probe.cpp'); open(src, 'w').write(text)
            rc, out, err, t = sh([CLANG, '-std=c++17', '-fsyntax-only', '-I' + os.path.join(REPO, 'include'), src], timeout=600)
            json.dump({'property': self.id, 'probe': pname, 'what': what, 'compile': CLANG + ' -std=c++17 -fsyntax-only -I<repo>/include probe.cpp'}, open(os.path.join(pdir, 'replay.json'), 'w'), indent=1)
            probes_run.append({'probe': pname, 'what': what, 'compiled': rc == 0})
            if rc != 0:
                open(os.path.join(pdir, 'STATUS'), 'w').write('reproduced\n' + err[-3000:])
                violations.append({'obligation': 'probe/' + pname, 'violated': ['%s (compiler verdict) [probe]' % what], 'replay': pdir, 'replay_status': 'reproduced', 'replay_output': err[-600:]})
        # ---- evaluate
        nq = 0; solver_s = 0.0; samples = []; nontrivial = 0; undecided = []
        for name, (ob, kfd, r) in sorted(list(results.items())):
            nq += 1 + (1 if 'retried_from' in r else 0); solver_s += r['time_s']
            if r['status'] == 'pass':
                if len(r['witnesses_fired']) < ob.min_witnesses or 'end' in r['witnesses_dead']:
                    inconclusive.append('obligation %s is vacuous: witnesses fired=%s dead=%s' % (name, r['witnesses_fired'], r['witnesses_dead']))
                else:
                    nontrivial += 1
            elif r['status'] == 'fail':
                h = handled[name]
                nq += h['extra_q']; solver_s += h['extra_s']
                if h['kind'] == 'pass':
                    nontrivial += 1; r = h['r']; results[name] = (ob, kfd, r)
                elif h['kind'] == 'inconclusive':
                    inconclusive.append(h['msg'])
                else:
                    violations.append({'obligation': name, 'violated': ['%s [%s]' % (d, p) for p, d in h['failed']][:6], 'replay': h['rdir'], 'replay_status': h['status'],
                                       'replay_output': h['out'][-600:]})
            elif getattr(ob, 'hunt', False) and r['status'] in ('timeout', 'oom'):
                # bug-hunting obligation: a counterexample inside the budget is a violation, no verdict inside the budget is recorded as UNDECIDED (never as held)
                undecided.append(name)
            else:
                inconclusive.append('obligation %s: %s %s' % (name, r['status'], '; '.join(r['errors'])[:600]))
            if len(samples) < 12 or r['status'] != 'pass':
                samples.append({'obligation': name, 'function': ob.fn, 'unit': ob.unit, 'defines': ob.defines + kfd, 'unwind': ob.unwind, 'bound': ob.bound,
                                'backend': ob.backend, 'verdict': r['status'], 'time_s': r['time_s'], 'assertions_checked': r.get('n_props'),
                                'witnesses_fired': r.get('witnesses_fired'), 'failed': r.get('failed', [])[:4]})
        for k, ob, r in kres:
            nq += 1; solver_s += r['time_s']
            if r['status'] == 'fail':
                pn, descr = r['failed'][0]
                rdir, status, out = self.make_replay(ob, ['KF_ONLY_' + k['id'].replace('-', '_')], pn, descr)
                known.append({'id': k['id'], 'what': k['what'], 'confirmed_by': ob.name, 'replay_status': status, 'replay': rdir})
                self.say('KNOWN-FINDING: property=%s %s [%s; counterexample inside the recorded predicate: %s, native replay: %s]' %
                         (self.id, k['what'], k['id'], descr, status))
            elif r['status'] == 'pass':
                self.say('[%s] note: known finding %s no longer has a counterexample (fixed?)' % (self.id, k['id']))
            else:
                inconclusive.append('known-finding confirmation %s: %s' % (k['id'], r['status']))
        # a failed harness assertion (a statement about values) must reproduce against the real code to be reported; cbmc's own
        # memory-safety properties (pointer/bounds/free) are reported even when no sanitizer confirms them (forming an out-of-bounds
        # pointer is undefined behaviour that ASan/UBSan do not flag) but are marked as solver-only
        reported = []
        for v in violations:
            builtin = not re.search(r'\.assertion\.\d+\]', v['violated'][0])
            if v['replay_status'] == 'reproduced' or builtin: reported.append(v)
            else:
                inconclusive.append('obligation %s: counterexample to "%s" did not reproduce against the real code (%s) - encoding or model problem, replay=%s' %
                                    (v['obligation'], v['violated'][0], v['replay_status'], v['replay']))
        violations = reported
        wall = time.time() - t0
        enc = sorted(set(f for u in self.units.values() for f in u.meta['defined']))
        xtl_enc = [f for f in enc if re.search(r'xtl|mpark|half_float|tcb|^w_', f)]
        ev['violations'] = len(violations)
        ev['wall_s'] = round(wall, 2)
        ev['coverage'] = {
            'evaluations': max(nq, 1), 'distinct_nontrivial': nontrivial,
            'rule': 'one evaluation = one cbmc run (SAT/SMT query over all inputs within the stated bounds) of one harness function; '
                    'an obligation counts as non-trivial when it was decided (all assertions SUCCESS incl. unwinding assertions) AND its '
                    'reachability witnesses (assertions that must FAIL) fired, i.e. the harness is not vacuous',
            'samples': samples, 'exhaustive': False,
            'obligations': len(results), 'discharged': sum(1 for _, _, r in results.values() if r['status'] == 'pass'),
            'solver_time_s': round(solver_s, 1),
            'functions_encoded': len(enc), 'xtl_functions_encoded_sample': xtl_enc[:40],
            'units': [{'name': u.name, 'cxxflags': u.cxxflags, 'inert_stubs': u.meta['inert'], 'external_functions': sorted(u.meta['externals']),
                       'rt_models': u.rt, 'functions_encoded': len(u.meta['defined'])} for u in self.units.values()],
            'bounds': getattr(self.prop, 'BOUNDS', {}).get(self.tier, getattr(self.prop, 'BOUNDS', '')),
            'not_covered': getattr(self.prop, 'NOT_COVERED', []),
            'translation_validation': tvres, 'compile_time_probes': probes_run,
            'undecided_bug_hunting_obligations': undecided, 'known_findings_confirmed': known, 'violations_detail': violations, 'inconclusive': inconclusive[:10],
            'cbmc_flags': CBMC_BASE,
        }
        ev['assumptions'] = list(getattr(self.prop, 'ASSUMPTIONS', [])) + [
            'clang-14 -O1 IR is the code under test; ir2c.py translation (validated natively per run); cbmc 6.11 and its back ends; rt/ models',
            'operator new never fails; wrappers built with -DNDEBUG as the baseline RelWithDebInfo test build']
        os.makedirs(os.path.join(OUT, 'evidence'), exist_ok=True)
        # a run restricted with --only is a development aid: it must not replace the evidence of the full check
        json.dump(ev, open(os.path.join(OUT, 'evidence', self.id + ('.partial' if self.only else '') + '.json'), 'w'), indent=1)
        self.say('[%s] tier=%s obligations=%d passed=%d violations=%d inconclusive=%d solver=%.0fs wall=%.0fs' %
                 (self.id, self.tier, len(results), ev['coverage']['discharged'], len(violations), len(inconclusive), solver_s, wall))
        if not self.keep and not violations and not inconclusive:
            shutil.rmtree(self.bdir, ignore_errors=True)
        for v in violations:
            self.say('VIOLATION property=%s replay=%s  [obligation %s: %s; native replay: %s]' %
                     (self.id, v['replay'], v['obligation'], '; '.join(v['violated'][:2]), v['replay_status']))
        if violations: return 1
        if inconclusive:
            for m in inconclusive: self.say('INCONCLUSIVE: ' + m)
            return 2
        return 0


def load_prop(pid):
    path = os.path.join(ROOT, 'props', pid, 'prop.py')
    spec = importlib.util.spec_from_file_location('prop_' + pid, path)
    m = importlib.util.module_from_spec(spec); sys.modules['prop_' + pid] = m
    m.Unit = Unit; m.Ob = Ob; m.ROOT = ROOT; m.REPO = REPO
    spec.loader.exec_module(m)
    return m


def replay(pid, path):
    """re-run a stored counterexample against the real code of /repo's current tree"""
    meta = json.load(open(os.path.join(path, 'replay.json')))
    if 'probe' in meta:
        rc, out, err, t = sh([CLANG, '-std=c++17', '-fsyntax-only', '-I' + os.path.join(REPO, 'include'), os.path.join(path, 'probe.cpp')], timeout=600)
        print(err[-3000:]); print('probe %s: %s' % (meta['probe'], 'compiles (no violation)' if rc == 0 else 'does not compile: ' + meta['what']))
        return 1 if rc != 0 else 0
    prop = load_prop(pid)
    r = Runner(prop, meta.get('tier', 'quick'), 4)
    os.makedirs(r.bdir, exist_ok=True); prop.BDIR = r.bdir
    u = [x for x in prop.units(meta.get('tier', 'quick')) if x.name == meta['unit']][0]
    r.build_unit(u)
    status, out = r.run_replay(path, u, meta['function'], meta['defines'])
    print(out)
    print('replay status: %s (violated assertion recorded by the solver: %s)' % (status, meta['violated']))
    return 1 if status == 'reproduced' else 0


def main():
    ap = argparse.ArgumentParser()
    ap.add_argument('id'); ap.add_argument('--tier', default=os.environ.get('VERIF_TIER', 'quick'), choices=['quick', 'thorough'])
    ap.add_argument('--only'); ap.add_argument('--jobs', type=int, default=min(16, os.cpu_count() or 4)); ap.add_argument('--keep', action='store_true')
    ap.add_argument('--replay')
    a = ap.parse_args()
    if a.replay: sys.exit(replay(a.id, a.replay))
    prop = load_prop(a.id)
    try: seed = int(os.environ.get('VERIF_SEED', '0'))
    except ValueError: seed = 0
    sys.exit(Runner(prop, a.tier, a.jobs, a.only, a.keep, seed).run())


if __name__ == '__main__':
    main()
