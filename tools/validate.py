#!/usr/bin/env python3
"""validate MANIFEST.json and every evidence file against the schemas (run with python3-vt)"""
import json, glob, sys, jsonschema
ok = True
try:
    jsonschema.validate(json.load(open('/verif/MANIFEST.json')), json.load(open('/root/.vp/MANIFEST.schema.json'))); print('MANIFEST ok')
except Exception as e: print('MANIFEST INVALID', str(e)[:300]); ok = False
es = json.load(open('/root/.vp/EVIDENCE.schema.json'))
for f in sorted(glob.glob('/verif/evidence/*.json')):
    try: jsonschema.validate(json.load(open(f)), es); print(f, 'ok')
    except Exception as e: print(f, 'INVALID', str(e)[:300]); ok = False
sys.exit(0 if ok else 1)
