#!/bin/bash
# seedrun.sh <PROP> <seed name> [extra ./check args]  - run the quick check of PROP against a scratch worktree of /repo HEAD
# with /verif/seeded/<name>/patch.diff applied (equivalent to `git -C /repo apply` + check + `git -C /repo checkout -- .`,
# but leaves /repo untouched so several seeds can run side by side).  Records the verdict in seeded/<name>/meta.json.
set -u
P=$1; NAME=$2; shift 2
D=/verif/seeded/$NAME; WT=/tmp/seedrun_$NAME
git -C /repo worktree remove --force $WT >/dev/null 2>&1
git -C /repo worktree add --detach $WT HEAD >/dev/null 2>&1 || { echo "cannot create worktree"; exit 2; }
git -C $WT apply $D/patch.diff || { git -C /repo worktree remove --force $WT; echo "patch does not apply"; exit 2; }
LOG=$(mktemp)
( cd /verif && VERIF_REPO=$WT VERIF_TAG=$NAME timeout 3000 ./check $P --tier quick "$@" ) >$LOG 2>&1; rc=$?
git -C /repo worktree remove --force $WT
nv=$(grep -c '^VIOLATION' $LOG); ni=$(grep -c '^INCONCLUSIVE' $LOG)
echo "$NAME: check $P exit=$rc violations=$nv inconclusive=$ni"
grep -E '^VIOLATION' $LOG | head -3 | cut -c1-400
grep -E '^INCONCLUSIVE' $LOG | head -2 | cut -c1-300
python3 - "$D/meta.json" "$P" "$rc" "$LOG" <<'PY'
import json,sys,re
mp,p,rc,log=sys.argv[1:5]
m=json.load(open(mp)); txt=open(log).read()
v=[l for l in txt.splitlines() if l.startswith('VIOLATION')]
m['detected_by']={'check':'./check %s --tier quick'%p,'exit':int(rc),'detected':int(rc)==1 and bool(v),
  'violation_lines':[re.sub(r'\s+',' ',l)[:500] for l in v[:4]],
  'obligations':sorted(set(re.findall(r'\[obligation ([^:]+):',' '.join(v))))[:20]}
json.dump(m,open(mp,'w'),indent=1)
PY
rm -rf /verif/build/seedruns/$NAME /verif/build/$P.$NAME; rm -f $LOG
