#!/usr/bin/env python3
"""Regenerates /verif/MANIFEST.json from the table below (kept in one place so it stays valid)."""
import json, os
ROOT = os.path.dirname(os.path.dirname(os.path.abspath(__file__)))
TECH = 'bounded symbolic execution of the compiled templates (clang-14 IR -> C -> cbmc 6.11 SAT/SMT), counterexamples replayed natively'
NOTE = ('Trusted base: clang-14 -O1 code generation, tools/ir2c.py (validated natively against the g++ build on every run), cbmc and its '
        'back ends, the environment models in rt/, the reference models in props/<id>/. Bounds per obligation are in the evidence file.')

CLAIMED = {}   # filled from the CLAIM strings of props/<id>/prop.py; the two below predate that convention
CLAIMED0 = {
    'C16': ('every span constructor, first/last/subspan (static and dynamic), element access and iteration on exact-size heap parents of 0..6 (thorough 0..12) ints with full 64-bit symbolic offsets/counts/indices, in the three contract modes (off / throwing / terminate)', '2 C16'),
    'C15': ('all value pairs of 169 ordered integer type pairs, all six functions vs __int128 comparison; no value bound', '2 C15'),
}
NA = {
    'C18': 'compile-time only: every claim is about which type a template metaprogram yields; there is no function body, IR or run-time value to execute symbolically (DESIGN.md C18)',
    'C19': 'observable is compiler/linker exit status over headers x standards x compilers x exception modes; nothing there is a formula over program values (DESIGN.md C19)',
}
PENDING = 'not claimed yet: the solver-based check for this property is still being built (see DESIGN.md for the plan)'


def main():
    import re, glob
    CLAIMED.update(CLAIMED0)
    for pp in sorted(glob.glob(os.path.join(ROOT, 'props', '*', 'prop.py'))):
        pid = os.path.basename(os.path.dirname(pp)); txt = open(pp).read()
        m = re.search(r"^CLAIM = (.+?)$", txt, re.M | re.S)
        if m and re.search(r"^CLAIM = ", txt, re.M):
            ns = {}; exec(re.search(r"^CLAIM = .*?(?=^\S)", txt, re.M | re.S).group(0), ns)
            CLAIMED[pid] = (ns['CLAIM'], '2 ' + pid)
    ids = [json.loads(l)['id'] for l in open(os.path.join(ROOT, 'properties.jsonl'))]
    checks = []
    for i in ids:
        if i in CLAIMED:
            text, ref = CLAIMED[i]
            checks.append({
                'property_id': i, 'quick_cmd': './check %s --tier quick' % i, 'thorough_cmd': './check %s --tier thorough' % i,
                'evidence_file': 'evidence/%s.json' % i, 'replay_cmd_template': './check %s --replay {path}' % i, 'engine': 'ir2c+cbmc',
                'level_claimed': {'category': 'model_checking', 'text': 'Bounded model checking of the real code: ' + text +
                                  '. Within the stated bounds the solver verdict covers every input; outside them nothing is claimed.', 'design_ref': ref},
                'level_note': NOTE, 'technique': TECH})
    na = [{'property_id': i, 'reason': NA.get(i, PENDING)} for i in ids if i not in CLAIMED]
    m = {'version': 1, 'setup_cmd': 'true',
         'hooks': {'guard': 'XTL_VERIF', 'enable': 'one hook: the C20 check compiles its wrappers with -DXTL_VERIF -DXTL_VERIF_PATH_BUFFER=<n> (n = 16, 64, 320; 1100 in the thorough tier), which scales the internal buffer of xtl::executable_path (include/xtl/xsystem.hpp); every other check instantiates the public templates from outside and needs no hook',
                   'baseline_off_cmd': 'cmake -G Ninja -S /repo -B /repo/_build -DBUILD_TESTS=ON -DCMAKE_BUILD_TYPE=RelWithDebInfo -DCMAKE_CXX_FLAGS=-Wno-error && cmake --build /repo/_build && ctest --test-dir /repo/_build -j8 --timeout 900',
                   'source_commits': ['332538a'], 'add_only': False},
         'engines': [{'name': 'ir2c+cbmc', 'path': 'tools/vrun.py', 'serves_properties': sorted(CLAIMED),
                      'kind_free_text': 'clang++-14 -emit-llvm -> tools/ir2c.py (LLVM IR to C through libLLVM-14 C API) -> cbmc 6.11 (minisat/cadical/kissat/z3/cvc5 back ends); native replay with g++ ASan/UBSan'}],
         'checks': checks, 'not_applicable': na,
         'notes': 'All checks rebuild from /repo working tree on every run; exit 0 held / 1 VIOLATION / 2 inconclusive (translator, solver budget or vacuity problem - never reported as success).'}
    json.dump(m, open(os.path.join(ROOT, 'MANIFEST.json'), 'w'), indent=1)


if __name__ == '__main__':
    main()
