#!/bin/bash
# confirm_seed.sh <PROP> <src dir with patch.diff demo.cpp NOTES.md> <seed name>
# Confirms in a scratch worktree (outside /repo and /verif) that the change compiles, passes the
# existing suite, that the demo fails with it and passes without; then stores it in /verif/seeded/<name>/.
set -u
P=$1; SRC=$2; NAME=$3
WT=/tmp/seedwt_$NAME
git -C /repo worktree remove --force $WT >/dev/null 2>&1
git -C /repo worktree add --detach $WT HEAD >/dev/null 2>&1 || exit 2
cd $WT
CC="g++ -std=c++17 -O1 -I include demo.cpp -o demo"
cp $SRC/demo.cpp demo.cpp
clean_rc=99; mut_rc=99; tests=unknown
eval "$CC" >/dev/null 2>&1 && { timeout 300 ./demo >/dev/null 2>&1; clean_rc=$?; }
git apply $SRC/patch.diff || { echo "patch does not apply"; git -C /repo worktree remove --force $WT; exit 2; }
eval "$CC" >/dev/null 2>&1 && { timeout 300 ./demo >/dev/null 2>&1; mut_rc=$?; }
cmake -G Ninja -S . -B _build -DBUILD_TESTS=ON -DCMAKE_BUILD_TYPE=RelWithDebInfo -DCMAKE_CXX_FLAGS=-Wno-error >/dev/null 2>&1 && cmake --build _build -j8 >/dev/null 2>&1 && tests=$(ctest --test-dir _build -j8 2>&1 | grep -o '[0-9]*% tests passed, [0-9]* tests failed out of [0-9]*')
cd /; git -C /repo worktree remove --force $WT
echo "$NAME: demo_clean_rc=$clean_rc demo_mutated_rc=$mut_rc tests='$tests'"
if [ "$clean_rc" = 0 ] && [ "$mut_rc" != 0 ] && [ "$mut_rc" != 99 ] && echo "$tests" | grep -q '^100% tests passed, 0 tests failed'; then
  D=/verif/seeded/$NAME; mkdir -p $D; cp $SRC/patch.diff $SRC/demo.cpp $D/; cp $SRC/NOTES.md $D/NOTES.md 2>/dev/null
  python3 - "$P" "$NAME" "$clean_rc" "$mut_rc" "$tests" "$CC" "$SRC" <<'PY'
import json,sys,os
p,name,c,m,t,cc,src=sys.argv[1:8]
notes=open(os.path.join(src,'NOTES.md')).read() if os.path.exists(os.path.join(src,'NOTES.md')) else ''
json.dump({'property':p,'name':name,'breaks':p,'needs_to_manifest':notes.strip()[:1500],
 'confirmed':{'how':'tools/confirm_seed.sh in a scratch worktree of /repo HEAD: built and ran the full ctest suite with the patch applied; compiled and ran demo.cpp with and without the patch',
  'demo_compile':cc,'demo_rc_clean_tree':int(c),'demo_rc_with_patch':int(m),'existing_tests_with_patch':t},
 'detected_by':'(filled in by tools/seedrun.sh)'}, open('/verif/seeded/%s/meta.json'%name,'w'), indent=1)
PY
  echo "stored /verif/seeded/$NAME"
else
  echo "NOT CONFIRMED: $NAME"
fi
