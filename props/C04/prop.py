"""C04 - missing/masked values propagate through every operator and are never evaluated.

The wrapper and harness sources are generated from the overload table below: one wrapper per overload
(operator x which argument positions are optional/masked/plain x closure kind), payload = the instrumented
type Tr whose every operation is an uninterpreted hook (harness side): it counts calls, records opcode and
operands and returns a symbolic value.  So "present iff all present", "value is exactly the operation's
result on the underlying values in order", "evaluated exactly once / never when missing" are assertions the
solver decides for all flags and all values.  A second, small unit uses real int / double payloads
(trapping division via the IR's div-by-zero assertion, NaN).
"""
import os
ID = 'C04'
CLAIM = ('every xoptional and xmasked_value overload (unary + - ~ !, 14 binary operators x {both,left,right} optional, == !=, 8 compound assignments x {optional,scalar} rhs, '
         '39 unary + 3 boolean + 8 binary lifted math functions, fma in its 7 position patterns, select in its 7 patterns, value_or/value/has_value) x value and reference closures, '
         'with an instrumented payload whose operations are uninterpreted counting hooks: all presence combinations and all 32-bit values; plus int/double payloads for trapping division and NaN')
BOUNDS = {'quick': 'no bound on values or flags; enumerated: the overload table (see coverage.units / samples), closure kinds {value, reference, const reference}, payloads {Tr, int32_t, int16_t, double}',
          'thorough': 'as quick plus cadical as second back end on every obligation'}
NOT_COVERED = ['payload types other than the listed ones; xoptional of xoptional; stream operators; xoptional_sequence (C11)',
               'non-evaluation is required (as in the property text) of binary/ternary operators, compound assignments and lifted functions - not of unary + - ~ ! and not of ==/!= (equal() compares the values first)']
ASSUMPTIONS = ['the Tr payload is found through ADL exactly like a user type with its own <cmath> overloads; its hooks return an arbitrary value per call (uninterpreted operation)']

UN_MATH = 'abs fabs exp exp2 expm1 log log10 log2 log1p sqrt cbrt sin cos tan acos asin atan sinh cosh tanh acosh asinh atanh erf erfc tgamma lgamma ceil floor trunc round nearbyint rint'.split()
UN_BOOL = 'isfinite isinf isnan'.split()
BIN_MATH = 'fmod remainder fmax fmin fdim pow hypot atan2'.split()
BIN_OPS = [('add', '+', 0), ('sub', '-', 0), ('mul', '*', 0), ('div', '/', 0), ('mod', '%', 0), ('band', '&', 0), ('bor', '|', 0), ('bxor', '^', 0),
           ('lor', '||', 0), ('land', '&&', 0), ('lt', '<', 1), ('le', '<=', 1), ('gt', '>', 1), ('ge', '>=', 1)]
CMP_ASSIGN = [('addeq', '+='), ('subeq', '-='), ('muleq', '*='), ('diveq', '/='), ('modeq', '%='), ('andeq', '&='), ('oreq', '|='), ('xoreq', '^=')]
OPC = {}


def opc(name):
    return OPC.setdefault(name, len(OPC) + 1)


def tr_header():
    L = ['#include <cstdint>', '#include <cstring>', '#include <cmath>', '#include <xtl/xoptional.hpp>', '#include <xtl/xmasked_value.hpp>',
         'extern "C" int32_t hook_op(int32_t op, int32_t a, int32_t b, int32_t c);',
         'namespace tr {', 'struct Tr { using value_type = Tr; int32_t v; Tr() : v(0) {} explicit Tr(int32_t x) : v(x) {} };']
    for n, op, isb in BIN_OPS:
        if isb: L.append('inline bool operator%s(const Tr& a, const Tr& b) { return hook_op(%d, a.v, b.v, 0) != 0; }' % (op, opc(n)))
        else: L.append('inline Tr operator%s(const Tr& a, const Tr& b) { return Tr(hook_op(%d, a.v, b.v, 0)); }' % (op, opc(n)))
    for n, op in CMP_ASSIGN:
        L.append('inline Tr& operator%s(Tr& a, const Tr& b) { a.v = hook_op(%d, a.v, b.v, 0); return a; }' % (op, opc(n)))
    L.append('inline bool operator==(const Tr& a, const Tr& b) { return hook_op(%d, a.v, b.v, 0) != 0; }' % opc('eq'))
    L.append('inline bool operator!=(const Tr& a, const Tr& b) { return hook_op(%d, a.v, b.v, 0) != 0; }' % opc('ne'))
    L.append('inline Tr operator-(const Tr& a) { return Tr(hook_op(%d, a.v, 0, 0)); }' % opc('neg'))
    L.append('inline Tr operator~(const Tr& a) { return Tr(hook_op(%d, a.v, 0, 0)); }' % opc('cpl'))
    L.append('inline bool operator!(const Tr& a) { return hook_op(%d, a.v, 0, 0) != 0; }' % opc('lnot'))
    for n in UN_MATH: L.append('inline Tr %s(const Tr& a) { return Tr(hook_op(%d, a.v, 0, 0)); }' % (n, opc(n)))
    for n in UN_BOOL: L.append('inline bool %s(const Tr& a) { return hook_op(%d, a.v, 0, 0) != 0; }' % (n, opc(n)))
    for n in BIN_MATH: L.append('inline Tr %s(const Tr& a, const Tr& b) { return Tr(hook_op(%d, a.v, b.v, 0)); }' % (n, opc(n)))
    L.append('inline Tr fma(const Tr& a, const Tr& b, const Tr& c) { return Tr(hook_op(%d, a.v, b.v, c.v)); }' % opc('fma'))
    L += ['}', 'using tr::Tr; using namespace xtl;', '#define W extern "C" __attribute__((noinline)) void',
          'static inline int32_t getv(const Tr& t) { return t.v; } static inline int32_t getv(bool b) { return b; } static inline int32_t getv(int32_t i) { return i; }',
          'template <class T, class B> static inline void put(const xoptional<T, B>& r, int32_t* rv, uint8_t* rf) { *rv = getv(r.value()); *rf = r.has_value(); }',
          'template <class T, class B> static inline void put(const xmasked_value<T, B>& r, int32_t* rv, uint8_t* rf) { *rv = getv(r.value()); *rf = r.visible(); }',
          'static inline void put(bool r, int32_t* rv, uint8_t* rf) { *rv = r; *rf = 1; }',
          'static inline void put(const Tr& r, int32_t* rv, uint8_t* rf) { *rv = r.v; *rf = 1; }',
          '#define ARGS int32_t a, uint8_t fa, int32_t b, uint8_t fb, int32_t c, uint8_t fc, int32_t* rv, uint8_t* rf']
    return L


def operand(fam, kind, i):
    """C++ declaring operand i (1..3) of the given kind; returns (decl, expr)"""
    v, f = 'abc'[i - 1], 'f' + 'abc'[i - 1]
    T = 'xoptional' if fam == 'o' else 'xmasked_value'
    if kind == 'S': return 'Tr s%d(%s);' % (i, v), 's%d' % i
    if kind == 'B': return 'bool s%d = %s != 0;' % (i, v), 's%d' % i           # plain bool (select condition)
    if kind == 'K': return '%s<bool> x%d(%s != 0, %s != 0);' % (T, i, v, f), 'x%d' % i   # optional bool (select condition)
    if kind == 'V': return '%s<Tr> x%d(Tr(%s), %s != 0);' % (T, i, v, f), 'x%d' % i
    if kind == 'R': return 'Tr v%d(%s); bool b%d = %s != 0; %s<Tr&, bool&> x%d(v%d, b%d);' % (i, v, i, f, T, i, i, i), 'x%d' % i
    if kind == 'C': return 'const Tr v%d(%s); const bool b%d = %s != 0; %s<const Tr&, const bool&> x%d(v%d, b%d);' % (i, v, i, f, T, i, i, i), 'x%d' % i
    raise ValueError(kind)


class Case:
    def __init__(self, fam, group, name, kinds, expr, check, opname=None, boolres=0, stmt=None):
        self.fam = fam; self.group = group; self.kinds = kinds; self.expr = expr; self.check = check; self.opname = opname; self.boolres = boolres; self.stmt = stmt
        self.name = 'w_%s_%s_%s' % (fam, name, kinds)

    def wrapper(self):
        decls = []; ex = []
        for i, k in enumerate(self.kinds, 1):
            d, e = operand(self.fam, k, i); decls.append(d); ex.append(e)
        body = ' '.join(decls)
        e = self.expr.format(*ex)
        if self.stmt: return 'W %s(ARGS) { %s %s; put(%s, rv, rf); }' % (self.name, body, e, self.stmt.format(*ex))
        return 'W %s(ARGS) { %s auto r = %s; put(r, rv, rf); }' % (self.name, body, e)

    def mask(self):
        return sum(1 << i for i, k in enumerate(self.kinds) if k in 'VRCK')


def cases():
    cs = []
    for fam in 'om':
        ck = ['V', 'R', 'C'] if fam == 'o' else ['V', 'R']
        for n, e, on in (('pos', '+{0}', None), ('neg', '-{0}', 'neg'), ('cpl', '~{0}', 'cpl'), ('lnot', '!{0}', 'lnot')):
            for k in ck: cs.append(Case(fam, 'unop', n, k, e, 'UNOP', on, boolres=1 if n == 'lnot' else 0))
        for n, op, isb in BIN_OPS:
            for kinds in ['VV', 'RR', 'VR', 'CV', 'VS', 'RS', 'SV', 'SR']:
                cs.append(Case(fam, 'binop_' + n, n, kinds, '{0} %s {1}' % op, 'LIFT', n, boolres=isb))
        for n, op in (('eq', '=='), ('ne', '!=')):
            for kinds in ['VV', 'RR', 'VR', 'VS', 'SV', 'RS', 'SR']:
                cs.append(Case(fam, 'equality', n, kinds, '{0} %s {1}' % op, 'EQ' if n == 'eq' else 'NE', 'eq'))
        for n, op in CMP_ASSIGN:
            for kinds in ['VV', 'RV', 'VR', 'RR', 'VS', 'RS']:
                cs.append(Case(fam, 'compound_' + n, n, kinds, '{0} %s {1}' % op, 'COMPOUND', n, stmt='{0}'))
        for n in UN_MATH + UN_BOOL:
            for k in ck[:2]: cs.append(Case(fam, 'unmath_' + n[0], n, k, '%s({0})' % n, 'LIFT', n, boolres=1 if n in UN_BOOL else 0))
        for n in BIN_MATH:
            for kinds in ['VV', 'RR', 'VS', 'SV', 'RS', 'SR']:
                cs.append(Case(fam, 'binmath_' + n, n, kinds, '%s({0}, {1})' % n, 'LIFT', n))
        for kinds in ['VVV', 'RRR', 'VVS', 'VSV', 'SVV', 'VSS', 'SVS', 'SSV', 'RSR', 'SRS']:
            cs.append(Case(fam, 'fma', 'fma', kinds, 'fma({0}, {1}, {2})', 'LIFT', 'fma'))
    # xoptional only: select, value_or, free functions
    for kinds in ['KVV', 'KVS', 'KSV', 'KSS', 'BVV', 'BVS', 'BSV', 'KRR', 'BRS']:
        cs.append(Case('o', 'select', 'select', kinds, 'select({0}, {1}, {2})', 'SELECT'))
    for k in 'VRC':
        cs.append(Case('o', 'free', 'value_or', k + 'S', '{0}.value_or({1})', 'VALUE_OR'))
        cs.append(Case('o', 'free', 'has_value', k, 'xtl::has_value({0})', 'HAS_VALUE'))
        cs.append(Case('o', 'free', 'value', k, 'Tr(xtl::value({0}))', 'VALUE'))
    cs.append(Case('o', 'free', 'has_value', 'S', 'xtl::has_value({0})', 'HAS_VALUE'))
    cs.append(Case('o', 'free', 'value', 'S', 'Tr(xtl::value({0}))', 'VALUE'))
    return cs


REAL_WRAPPERS = r'''
// real payloads: trapping integer division / modulo (the IR's sdiv/srem carry a division-by-zero assertion), int16 value equality, NaN
#define WR extern "C" __attribute__((noinline)) void
#define RARGS(T) T a, uint8_t fa, T b, uint8_t fb, T* rv, uint8_t* rf
#define ROUT(r) *rv = (r).value(); *rf = (r).has_value()
#define MOUT(r) *rv = (r).value(); *rf = (r).visible()
WR wr_o_div_oo(RARGS(int32_t)) { xoptional<int32_t> x(a, fa != 0), y(b, fb != 0); auto r = x / y; ROUT(r); }
WR wr_o_div_os(RARGS(int32_t)) { xoptional<int32_t> x(a, fa != 0); auto r = x / b; ROUT(r); }
WR wr_o_div_so(RARGS(int32_t)) { xoptional<int32_t> y(b, fb != 0); auto r = a / y; ROUT(r); }
WR wr_o_mod_oo(RARGS(int32_t)) { xoptional<int32_t> x(a, fa != 0), y(b, fb != 0); auto r = x % y; ROUT(r); }
WR wr_o_mod_so(RARGS(int32_t)) { xoptional<int32_t> y(b, fb != 0); auto r = a % y; ROUT(r); }
WR wr_o_diveq_oo(RARGS(int32_t)) { int32_t v = a; bool f = fa != 0; xoptional<int32_t&, bool&> x(v, f); xoptional<int32_t> y(b, fb != 0); x /= y; *rv = v; *rf = f; }
WR wr_o_modeq_oo(RARGS(int32_t)) { xoptional<int32_t> x(a, fa != 0), y(b, fb != 0); x %= y; ROUT(x); }
WR wr_o_diveq_os(RARGS(int32_t)) { xoptional<int32_t> x(a, fa != 0); x /= b; ROUT(x); }
WR wr_m_div_mm(RARGS(int32_t)) { xmasked_value<int32_t> x(a, fa != 0), y(b, fb != 0); auto r = x / y; MOUT(r); }
WR wr_m_mod_sm(RARGS(int32_t)) { xmasked_value<int32_t> y(b, fb != 0); auto r = a % y; MOUT(r); }
WR wr_m_diveq_mm(RARGS(int32_t)) { xmasked_value<int32_t> x(a, fa != 0), y(b, fb != 0); x /= y; MOUT(x); }
WR wr_m_modeq_mm(RARGS(int32_t)) { int32_t v = a; bool f = fa != 0; xmasked_value<int32_t&, bool&> x(v, f); xmasked_value<int32_t> y(b, fb != 0); x %= y; *rv = v; *rf = f; }
WR wr_o16_div(RARGS(int16_t)) { xoptional<int16_t> x(a, fa != 0), y(b, fb != 0); auto r = x / y; *rv = static_cast<int16_t>(r.value()); *rf = r.has_value(); }
WR wr_o16_mod(RARGS(int16_t)) { xoptional<int16_t> x(a, fa != 0), y(b, fb != 0); auto r = x % y; *rv = static_cast<int16_t>(r.value()); *rf = r.has_value(); }
WR wr_o_arith(int32_t a, uint8_t fa, int32_t b, uint8_t fb, int32_t* out, uint8_t* of)
{
    xoptional<int32_t> x(a, fa != 0), y(b, fb != 0);
    auto r0 = x + y; auto r1 = x - y; auto r2 = x * y; auto r3 = x & y; auto r4 = x | y; auto r5 = x ^ y; auto r6 = x < y; auto r7 = -x; auto r8 = ~x; auto r9 = x >= b; auto r10 = a + y;
    out[0] = r0.value(); of[0] = r0.has_value(); out[1] = r1.value(); of[1] = r1.has_value(); out[2] = r2.value(); of[2] = r2.has_value();
    out[3] = r3.value(); of[3] = r3.has_value(); out[4] = r4.value(); of[4] = r4.has_value(); out[5] = r5.value(); of[5] = r5.has_value();
    out[6] = r6.value(); of[6] = r6.has_value(); out[7] = r7.value(); of[7] = r7.has_value(); out[8] = r8.value(); of[8] = r8.has_value();
    out[9] = r9.value(); of[9] = r9.has_value(); out[10] = r10.value(); of[10] = r10.has_value();
}
WR wr_m_arith(int32_t a, uint8_t fa, int32_t b, uint8_t fb, int32_t* out, uint8_t* of)
{
    xmasked_value<int32_t> x(a, fa != 0), y(b, fb != 0);
    auto r0 = x + y; auto r1 = x - y; auto r2 = x * y; auto r3 = x & y; auto r4 = x | y; auto r5 = x ^ y; auto r6 = x < y; auto r7 = -x; auto r8 = ~x; auto r9 = x >= b; auto r10 = a + y;
    out[0] = r0.value(); of[0] = r0.visible(); out[1] = r1.value(); of[1] = r1.visible(); out[2] = r2.value(); of[2] = r2.visible();
    out[3] = r3.value(); of[3] = r3.visible(); out[4] = r4.value(); of[4] = r4.visible(); out[5] = r5.value(); of[5] = r5.visible();
    out[6] = r6.value(); of[6] = r6.visible(); out[7] = r7.value(); of[7] = r7.visible(); out[8] = r8.value(); of[8] = r8.visible();
    out[9] = r9.value(); of[9] = r9.visible(); out[10] = r10.value(); of[10] = r10.visible();
}
// double payload incl. NaN: bit0 ==, bit1 !=, bit2 (x<y).has, bit3 (x<y).value, bit4 (d>=y).has bit5 (d>=y).value, bit6 (x+y).has ; sum bits returned through *sum
WR wr_o_dbl(uint64_t ab, uint8_t fa, uint64_t bb, uint8_t fb, uint32_t* bits, uint64_t* sum)
{
    double a, b; std::memcpy(&a, &ab, 8); std::memcpy(&b, &bb, 8);
    xoptional<double> x(a, fa != 0), y(b, fb != 0);
    auto lt = x < y; auto ge = a >= y; auto s = x + y;
    *bits = (uint32_t)(x == y) | (uint32_t)(x != y) << 1 | (uint32_t)lt.has_value() << 2 | (uint32_t)lt.value() << 3 | (uint32_t)ge.has_value() << 4 | (uint32_t)ge.value() << 5 | (uint32_t)s.has_value() << 6;
    double sv = s.value(); std::memcpy(sum, &sv, 8);
}
WR wr_m_dbl(uint64_t ab, uint8_t fa, uint64_t bb, uint8_t fb, uint32_t* bits, uint64_t* sum)
{
    double a, b; std::memcpy(&a, &ab, 8); std::memcpy(&b, &bb, 8);
    xmasked_value<double> x(a, fa != 0), y(b, fb != 0);
    auto lt = x < y; auto ge = a >= y; auto s = x + y;
    *bits = (uint32_t)(x == y) | (uint32_t)(x != y) << 1 | (uint32_t)lt.visible() << 2 | (uint32_t)lt.value() << 3 | (uint32_t)ge.visible() << 4 | (uint32_t)ge.value() << 5 | (uint32_t)s.visible() << 6;
    double sv = s.value(); std::memcpy(sum, &sv, 8);
}
'''

HARNESS_HEAD = r'''/* generated by props/C04/prop.py - do not edit */
#include "harness.h"
#include "gen.h"
static i32 g_cnt, g_op, g_a, g_b, g_c, g_hr;
/* the payload's operations: uninterpreted - count, record, return the symbolic value chosen by the harness */
i32 hook_op(i32 op, i32 a, i32 b, i32 c) { g_cnt++; g_op = op; g_a = a; g_b = b; g_c = c; return g_hr; }
#define RES(B) ((B) ? (i32)(hr != 0) : hr)
#define CHECK_LIFT(P, OP, A1, A2, A3, B) do { \
    VASSERT(rf == (P), "result is present exactly when every optional/masked operand is present"); \
    if (P) { VASSERT(g_cnt == 1 && g_op == (OP) && g_a == (A1) && g_b == (A2) && g_c == (A3), "the underlying operation is evaluated exactly once, on the operand values in order"); \
             VASSERT(rv == RES(B), "the value is the underlying operation's result"); } \
    else VASSERT(g_cnt == 0, "the underlying operation is not evaluated when an operand is missing"); } while (0)
#define CHECK_UNOP(P, OP, A1, B, IDENT) do { \
    VASSERT(rf == (P), "unary operator keeps the presence flag"); \
    if (P) { if (IDENT) VASSERT(rv == (A1) && g_cnt == 0, "unary plus returns the value"); \
             else { VASSERT(g_cnt == 1 && g_op == (OP) && g_a == (A1), "unary operator applied once to the value"); VASSERT(rv == RES(B), "value is the operator's result"); } } } while (0)
#define CHECK_EQ(P1, P2, NEG) do { \
    int both_missing = !(P1) && !(P2), both = (P1) && (P2); \
    if (both) VASSERT(g_cnt >= 1 && g_op == OPC_eq && ((g_a == a && g_b == b) || (g_a == b && g_b == a)), "equality of two present values compares the underlying values"); \
    int e = both_missing || (both && hr != 0); \
    VASSERT(rf == 1 && rv == ((NEG) ? !e : e), "== : both missing, or both present and equal; != is its negation"); } while (0)
#define CHECK_COMPOUND(P, OP) do { \
    VASSERT(rf == (P), "compound assignment: target present exactly when it was present and the right-hand side is present"); \
    if (P) { VASSERT(g_cnt == 1 && g_op == (OP) && g_a == a && g_b == b, "compound assignment evaluated once on (target, rhs)"); VASSERT(rv == hr, "target holds the result"); } \
    else { VASSERT(g_cnt == 0, "compound assignment not evaluated when target or right-hand side is missing"); VASSERT(rv == a, "target value untouched"); } } while (0)
'''


def gen_sources():
    cs = cases()
    W = tr_header() + [c.wrapper() for c in cs] + [REAL_WRAPPERS]
    H = [HARNESS_HEAD] + ['#define OPC_%s %d' % kv for kv in OPC.items()]
    groups = {}
    for c in cs: groups.setdefault('%s_%s' % (c.fam, c.group), []).append(c)
    for g, lst in groups.items():
        H.append('void h_%s(void) {' % g)
        H.append('  IN(i32, a); IN(i32, b); IN(i32, c); IN(u8, fa); IN(u8, fb); IN(u8, fc); IN(i32, hr); IN(u16, which);')
        H.append('  VASSUME(fa <= 1 && fb <= 1 && fc <= 1 && which < %d);' % len(lst))
        H.append('  g_cnt = 0; g_hr = hr; i32 rv = 0x5a5a5a5a; u8 rf = 7;')
        H.append('  switch (which) {')
        for i, c in enumerate(lst):
            m = c.mask(); fl = ['fa', 'fb', 'fc']; vals = ['a', 'b', 'c']
            P = ' && '.join(fl[j] for j in range(len(c.kinds)) if m >> j & 1) or '1'
            A = [vals[j] if j < len(c.kinds) else '0' for j in range(3)]
            call = '%s(a, fa, b, fb, c, fc, &rv, &rf);' % c.name
            if c.check == 'LIFT': chk = 'CHECK_LIFT(%s, OPC_%s, %s, %s, %s, %d);' % (P, c.opname, A[0], A[1], A[2], c.boolres)
            elif c.check == 'UNOP': chk = 'CHECK_UNOP(%s, %s, a, %d, %d);' % (P, 'OPC_' + c.opname if c.opname else '0', c.boolres, 0 if c.opname else 1)
            elif c.check in ('EQ', 'NE'):
                p1 = 'fa' if m & 1 else '1'; p2 = 'fb' if m & 2 else '1'
                chk = 'CHECK_EQ(%s, %s, %d);' % (p1, p2, 1 if c.check == 'NE' else 0)
            elif c.check == 'COMPOUND': chk = 'CHECK_COMPOUND(%s, OPC_%s);' % (P, c.opname)
            elif c.check == 'SELECT':
                condp = 'fa' if c.kinds[0] == 'K' else '1'
                f1 = 'fb' if c.kinds[1] in 'VRC' else '1'; f2 = 'fc' if c.kinds[2] in 'VRC' else '1'
                chk = ('{ int cp = %s; int ch = a != 0; int ef = cp && (ch ? %s : %s); VASSERT(rf == ef, "select: missing when the condition is missing, otherwise the presence of the chosen branch"); '
                       'if (ef) VASSERT(rv == (ch ? b : c), "select returns the chosen branch unchanged"); VASSERT(g_cnt == 0, "select evaluates nothing"); }') % (condp, f1, f2)
            elif c.check == 'VALUE_OR': chk = 'VASSERT(rf == 1 && rv == (fa ? a : b), "value_or: the value when present, the default otherwise");'
            elif c.check == 'HAS_VALUE': chk = 'VASSERT(rf == 1 && rv == %s, "has_value free function");' % ('fa' if m & 1 else '1')
            elif c.check == 'VALUE': chk = 'VASSERT(rf == 1 && rv == a, "value free function");'
            H.append('    case %d: %s %s break;   /* %s */' % (i, call, chk, c.expr.format('x', 'y', 'z') + ' ' + c.kinds))
        H.append('  }')
        H.append('  WITNESS("all_present", fa && fb && fc); WITNESS("first_missing", !fa && fb); WITNESS("second_missing", fa && !fb); WITNESS("last_case", which == %d);' % (len(lst) - 1))
        H.append('  HARNESS_END();\n}')
    H.append(open(os.path.join(ROOT, 'props', 'C04', 'harness_real.c')).read())
    return '\n'.join(W) + '\n', '\n'.join(H) + '\n', sorted(groups), len(cs)


def units(tier):
    w, h, groups, n = gen_sources()
    hp = os.path.join(BDIR, 'harness_gen.c'); open(hp, 'w').write(h)
    units.groups = groups; units.ncases = n
    tv = [('h_o_binop_add', []), ('h_m_binop_div', []), ('h_o_compound_modeq', []), ('h_o_select', []), ('h_m_fma', []), ('h_o_equality', []), ('hr_div', []), ('hr_dbl', [])]
    return [Unit('lift', lambda: w, [hp], tv=tv, tv_iters=20000, ir2c_flags=['--hook-arith'])]


def obligations(tier):
    if not hasattr(units, 'groups'): units(tier)
    obs = []
    for g in units.groups:
        obs.append(Ob(g, 'lift', 'h_' + g, unwind=3, bound='all flags, all 32-bit values, every overload of the group (symbolic selector)', min_witnesses=2))
        if tier == 'thorough': obs.append(Ob(g + '@cadical', 'lift', 'h_' + g, unwind=3, backend='cadical', min_witnesses=2))
    for h in ('hr_div', 'hr_div16', 'hr_arith', 'hr_dbl'):
        obs.append(Ob('real/' + h[3:], 'lift', h, unwind=14, backend='cadical', bound='all flags, all values of the real payload type', min_witnesses=1))
    return obs
