/* real payload types (appended to the generated harness) */
#define IMIN ((i32)0x80000000)
void hr_div(void) {
  IN(i32, a); IN(i32, b); IN(u8, fa); IN(u8, fb); IN(u8, which);
  VASSUME(fa <= 1 && fb <= 1 && which < 12);
  /* which operands are optional/masked: bit0 lhs, bit1 rhs ; compound: target is lhs */
  static const u8 MASK[12] = {3, 1, 2, 3, 2, 3, 3, 1, 3, 2, 3, 3};
  static const u8 COMPOUND[12] = {0, 0, 0, 0, 0, 1, 1, 1, 0, 0, 1, 1};
  int pa = (MASK[which] & 1) ? fa : 1, pb = (MASK[which] & 2) ? fb : 1, P = pa && pb;
  /* only a PRESENT divisor has to be non-zero (and INT_MIN / -1 excluded): a missing zero must be harmless */
  VASSUME(!(P && (b == 0 || (a == IMIN && b == -1))));
  i32 rv = 0x5a5a5a5a; u8 rf = 7;
  switch (which) {
    case 0: wr_o_div_oo(a, fa, b, fb, &rv, &rf); break;   case 1: wr_o_div_os(a, fa, b, fb, &rv, &rf); break;
    case 2: wr_o_div_so(a, fa, b, fb, &rv, &rf); break;   case 3: wr_o_mod_oo(a, fa, b, fb, &rv, &rf); break;
    case 4: wr_o_mod_so(a, fa, b, fb, &rv, &rf); break;   case 5: wr_o_diveq_oo(a, fa, b, fb, &rv, &rf); break;
    case 6: wr_o_modeq_oo(a, fa, b, fb, &rv, &rf); break; case 7: wr_o_diveq_os(a, fa, b, fb, &rv, &rf); break;
    case 8: wr_m_div_mm(a, fa, b, fb, &rv, &rf); break;   case 9: wr_m_mod_sm(a, fa, b, fb, &rv, &rf); break;
    case 10: wr_m_diveq_mm(a, fa, b, fb, &rv, &rf); break; default: wr_m_modeq_mm(a, fa, b, fb, &rv, &rf); break;
  }
  /* reaching this point at all means no division trapped (the translated sdiv/srem assert a non-zero divisor) */
  VASSERT(rf == P, "int division/modulo: result present exactly when both operands are present");
  if (COMPOUND[which] && !P) VASSERT(rv == a, "int compound division by a missing (possibly zero) value leaves the target untouched");
  if (P) VASSERT(rv == ((which == 3 || which == 4 || which == 6 || which == 9 || which == 11) ? REF_SREM32(a, b) : REF_SDIV32(a, b)), "int division/modulo: value is the quotient/remainder of the underlying values");
  WITNESS("missing_zero_divisor", !pb && b == 0 && pa); WITNESS("missing_dividend_zero_divisor", !pa && b == 0);
  HARNESS_END();
}
void hr_div16(void) {   /* value equality of / and % is decided on int16_t payloads (two 32-bit dividers do not converge) */
  IN(i16, a); IN(i16, b); IN(u8, fa); IN(u8, fb); IN(u8, which);
  VASSUME(fa <= 1 && fb <= 1 && which < 2);
  int P = fa && fb; VASSUME(!(P && b == 0));
  i16 rv = 0x5a5a; u8 rf = 7;
  if (which) wr_o16_mod(a, fa, b, fb, (u16*)&rv, &rf); else wr_o16_div(a, fa, b, fb, (u16*)&rv, &rf);
  VASSERT(rf == P, "int16 division: presence");
  if (P) VASSERT(rv == (i16)(which ? REF_SREM32(a, b) : REF_SDIV32(a, b)), "int16 division/modulo: value is the quotient/remainder of the underlying values");
  WITNESS("negative_operands", P && a < 0 && b < 0);
  HARNESS_END();
}
void hr_arith(void) {
  IN(i32, a); IN(i32, b); IN(u8, fa); IN(u8, fb); IN(u8, which);
  VASSUME(fa <= 1 && fb <= 1 && which < 2);
  i32 out[11]; u8 of[11];
  if (which) wr_m_arith(a, fa, b, fb, (u32*)out, of); else wr_o_arith(a, fa, b, fb, (u32*)out, of);
  u32 ua = (u32)a, ub = (u32)b; int P = fa && fb;
  u32 e[11] = {ua + ub, ua - ub, P ? REF_MUL32(ua, ub) : 0, ua & ub, ua | ub, ua ^ ub, (u32)(a < b), 0u - ua, ~ua, (u32)(a >= b), ua + ub};
  u8 ef[11] = {P, P, P, P, P, P, P, fa, fa, fa, fb};
  for (int i = 0; i < 11; i++) {
    VASSERT(of[i] == ef[i], "int payload: presence of + - * & | ^ < unary- ~ (x>=s) (s+y)");
    if (ef[i]) VASSERT((u32)out[i] == e[i], "int payload: value equals the same operation on the underlying ints");
  }
  WITNESS("extreme", a == IMIN && P);
  HARNESS_END();
}
void hr_dbl(void) {
  IN(u64, ab); IN(u64, bb); IN(u8, fa); IN(u8, fb); IN(u8, which);
  VASSUME(fa <= 1 && fb <= 1 && which < 2);
  double a, b; memcpy(&a, &ab, 8); memcpy(&b, &bb, 8);
  u32 bits = 0; u64 sum = 0;
  if (which) wr_m_dbl(ab, fa, bb, fb, &bits, &sum); else wr_o_dbl(ab, fa, bb, fb, &bits, &sum);
  int P = fa && fb;
  /* xoptional ==: both missing, or both present and equal; xmasked_value ==: same rule */
  int eq = (!fa && !fb) || (P && a == b);
  VASSERT((bits & 1) == (u32)eq && ((bits >> 1) & 1) == (u32)!eq, "double payload: == and != (NaN is unequal to everything, two missing values are equal)");
  VASSERT(((bits >> 2) & 1) == (u32)P && (!P || ((bits >> 3) & 1) == (u32)(a < b)), "double payload: x < y");
  VASSERT(((bits >> 4) & 1) == (u32)fb && (!fb || ((bits >> 5) & 1) == (u32)(a >= b)), "double payload: scalar >= optional (NaN compares false)");
  double s; memcpy(&s, &sum, 8); double es = a + b;
  VASSERT(((bits >> 6) & 1) == (u32)P && (!P || (es != es ? s != s : s == es)), "double payload: x + y");
  WITNESS("nan_operand", a != a && P); WITNESS("both_missing", !fa && !fb);
  HARNESS_END();
}
