/* C17 harnesses for the table dispatchers: registration history and dynamic types symbolic; oracle = a table where the last registration of a
 * cell wins, an erased or never registered cell (also when only another permutation is registered) must raise and never run a handler. */
#include "harness.h"
#include "gen.h"
static i32 g_n, g_h, g_a, g_b, g_c, g_e;
void hook_record(i32 handler, i32 first, i32 second, i32 extra) { g_n++; g_h = handler; g_a = first; g_b = second; g_e = extra; }
void hook_record3(i32 handler, i32 a, i32 b, i32 c, i32 extra) { g_n++; g_h = handler; g_a = a; g_b = b; g_c = c; g_e = extra; }
void h_fast2(void) {
  IN(u8, r1); IN(u8, r2); IN(u8, r3); IN(u8, k1); IN(u8, k2); IN(i32, extra); VASSUME(r1 < 10 && r2 < 10 && r3 < 10 && k1 < 3 && k2 < 3 && extra != 0x7fffffff);
#ifdef NREG2
  r3 = 9;      /* two registrations only */
#endif
#ifdef HIST   /* one obligation per concrete registration history (decimal digits r1 r2 r3): constants, so that symex resolves the container sizes */
  r1 = HIST / 100; r2 = (HIST / 10) % 10; r3 = HIST % 10;
#endif
  i32 table[9]; for (int i = 0; i < 9; i++) table[i] = 0;
  u8 rs[3] = {r1, r2, r3};
  for (int g = 0; g < 3; g++) if (rs[g] < 9) table[rs[g]] = 1000 * (g + 1) + 10 * (rs[g] / 3 + 1) + (rs[g] % 3 + 1);
  i64 out[2] = {-7, -7}; g_n = 0;
  w_fast2(r1, r2, r3, k1, k2, extra, (u64*)out);
  i32 e = table[3 * k1 + k2];
  if (e) { VASSERT(out[0] == 0 && g_n == 1 && g_h == e, "basic_fast_dispatcher: the handler registered last for the tuple of dynamic types runs");
           VASSERT(g_a == 1 && g_b == 2 && g_e == extra && out[1] == extra + 1, "arguments arrive in registered order, the extra argument is passed by reference and unchanged"); }
  else VASSERT(out[0] != 0 && g_n == 0 && out[1] == extra, "no handler registered for the tuple: an exception, never some other handler");
  WITNESS("reregistered_cell", r1 == r3 && r1 < 9 && e); WITNESS("registration_order_not_index_order", r1 == 7 && r2 == 0 && r3 == 5); WITNESS("only_permutation_registered", e == 0 && k1 != k2 && table[3 * k2 + k1] != 0);
  WITNESS("class_never_indexed", e == 0 && r1 == 0 && r2 == 0 && r3 == 9 && k2 == 2);
  HARNESS_END();
}
void h_fast3(void) {
  IN(u8, r1); IN(u8, r2); IN(u8, k1); IN(u8, k2); IN(u8, k3); IN(i32, extra); VASSUME(r1 < 7 && r2 < 7 && k1 < 3 && k2 < 3 && k3 < 3 && extra != 0x7fffffff);
#ifdef HIST
  r1 = HIST / 10; r2 = HIST % 10;
#endif
  static const i32 CELL[6] = {111, 121, 213, 321, 132, 222};
  i32 want = 0;
  if (r1 < 6 && CELL[r1] == 100 * (k1 + 1) + 10 * (k2 + 1) + (k3 + 1)) want = 1000 + CELL[r1];
  if (r2 < 6 && CELL[r2] == 100 * (k1 + 1) + 10 * (k2 + 1) + (k3 + 1)) want = 2000 + CELL[r2];
  i64 out[2] = {-7, -7}; g_n = 0;
  w_fast3(r1, r2, k1, k2, k3, extra, (u64*)out);
  if (want) { VASSERT(out[0] == 0 && g_n == 1 && g_h == want, "basic_fast_dispatcher (3 arguments): the handler registered last for the tuple of dynamic types runs");
              VASSERT(g_a == 1 && g_b == 2 && g_c == 3 && g_e == extra && out[1] == extra + 1, "three arguments arrive in registered order, the extra argument by reference"); }
  else VASSERT(out[0] != 0 && g_n == 0 && out[1] == extra, "no handler registered for the triple: an exception, never some other handler");
  WITNESS("second_level_index_beyond_table", want == 0 && r1 == 0 && r2 == 6 && k1 == 0 && k2 == 1); WITNESS("hit", want != 0 && r2 < 6 && r1 < 6 && r1 != r2);
  HARNESS_END();
}
/* functor_dispatcher over the recording backend: history of 3 steps, each insert of one of 9 cells (0..8), erase of one of 9 cells (9..17) or nothing (18) */
void h_functor(void) {
  IN(u8, dyn); IN(u8, r1); IN(u8, r2); IN(u8, r3); IN(u8, k1); IN(u8, k2); IN(i32, extra); VASSUME(dyn < 2 && r1 < 19 && r2 < 19 && r3 < 19 && k1 < 3 && k2 < 3 && extra != 0x7fffffff);
  i32 table[9]; for (int i = 0; i < 9; i++) table[i] = 0;
  u8 rs[3] = {r1, r2, r3};
  for (int g = 0; g < 3; g++) { if (rs[g] < 9) table[rs[g]] = 1000 * (g + 1) + 10 * (rs[g] / 3 + 1) + (rs[g] % 3 + 1); else if (rs[g] < 18) table[rs[g] - 9] = 0; }
  i64 out[4] = {-7, -7, -7, -7}; g_n = 0;
  w_functor(dyn, r1, r2, r3, k1, k2, extra, (u64*)out);
  i32 e = table[3 * k1 + k2];
  if (e) { VASSERT(out[0] == 0 && g_n == 1 && g_h == e && out[2] == e, "functor_dispatcher: the handler registered last for the tuple of dynamic types runs and its result is returned");
           VASSERT(g_a == 1 && g_b == 2, "the wrapper casts to the registered types and keeps the argument order (the objects themselves arrive)");
           VASSERT(g_e == extra && out[1] == extra + 1 && out[3] == 0, "the undispatched argument is passed by reference: the handler sees its value, its write is visible to the caller, no copy is made"); }
  else VASSERT(out[0] != 0 && g_n == 0 && out[1] == extra, "erased or never registered tuple: an exception, never some other handler");
  WITNESS("erased_then_dispatched", r1 < 9 && r2 == r1 + 9 && r3 == 18 && 3 * k1 + k2 == r1); WITNESS("reregistered", r1 == r3 && r1 < 9 && e); WITNESS("dynamic_cast_with_pointer_adjustment", dyn && e && k1 == 1 && k2 == 1);
  WITNESS("only_permutation_registered", e == 0 && k1 != k2 && table[3 * k2 + k1] != 0);
  HARNESS_END();
}
/* basic_dispatcher over std::map: same history language as h_functor */
void h_map(void) {
  IN(u8, r1); IN(u8, r2); IN(u8, r3); IN(u8, k1); IN(u8, k2); IN(i32, extra); VASSUME(r1 < 19 && r2 < 19 && r3 < 19 && k1 < 3 && k2 < 3 && extra != 0x7fffffff);
#ifdef HIST2
  r1 = HIST2 / 19; r2 = HIST2 % 19;     /* first two steps concrete, third symbolic */
#endif
#ifdef STEPS2
  r3 = 18;                               /* histories of two steps */
#endif
#ifdef HIST3
  r1 = HIST3 / 361; r2 = (HIST3 / 19) % 19; r3 = HIST3 % 19;     /* all three steps concrete */
#endif
  i32 table[9]; for (int i = 0; i < 9; i++) table[i] = 0;
  u8 rs[3] = {r1, r2, r3};
  for (int g = 0; g < 3; g++) { if (rs[g] < 9) table[rs[g]] = 1000 * (g + 1) + 10 * (rs[g] / 3 + 1) + (rs[g] % 3 + 1); else if (rs[g] < 18) table[rs[g] - 9] = 0; }
  i64 out[2] = {-7, -7}; g_n = 0;
  w_map(r1, r2, r3, k1, k2, extra, (u64*)out);
  i32 e = table[3 * k1 + k2];
  if (e) { VASSERT(out[0] == 0 && g_n == 1 && g_h == e, "basic_dispatcher: the handler registered last for the tuple of dynamic types runs");
           VASSERT(g_a == 1 && g_b == 2 && g_e == extra && out[1] == extra + 1, "arguments arrive in call order, the extra argument by reference"); }
  else VASSERT(out[0] == 2 && g_n == 0 && out[1] == extra, "erased or never registered tuple: runtime_error, never some other handler");
  WITNESS("erased_then_dispatched", r1 < 9 && r2 == r1 + 9 && r3 == 18 && 3 * k1 + k2 == r1); WITNESS("reregistered", r1 == r3 && r1 < 9 && e);
  WITNESS("only_permutation_registered", e == 0 && k1 != k2 && table[3 * k2 + k1] != 0); WITNESS("three_keys", r1 < 9 && r2 < 9 && r3 < 9 && r1 != r2 && r2 != r3 && r1 != r3);
  HARNESS_END();
}
