/* C17 harnesses: dynamic types of the arguments are symbolic; handlers report (id, object ids in the order received, extra argument). */
#include "harness.h"
#include "gen.h"
static i32 g_n, g_h, g_a, g_b, g_e;
void hook_record(i32 handler, i32 first, i32 second, i32 extra) { g_n++; g_h = handler; g_a = first; g_b = second; g_e = extra; }
void h_static(void) {
  IN(u8, k1); IN(u8, k2); IN(u8, sym); IN(i32, extra); VASSUME(k1 < 4 && k2 < 4 && sym < 2);
  g_n = 0; w_static(k1, k2, sym, extra);
  VASSERT(g_n == 1 && g_e == extra, "exactly one handler (or on_error) runs and receives the undispatched argument unchanged");
  if (k1 == 3 || k2 == 3) VASSERT(g_h == 0 && g_a == 1 && g_b == 2, "a dynamic type outside the type list reaches on_error, never some other handler");
  else if (!sym || k1 <= k2) VASSERT(g_h == (k1 + 1) * 10 + (k2 + 1) && g_a == 1 && g_b == 2, "the handler of the tuple of dynamic types runs with the arguments in call order");
  else VASSERT(g_h == (k2 + 1) * 10 + (k1 + 1) && g_a == 2 && g_b == 1, "symmetric dispatch: dispatch(a,b) reaches the handler of (b,a) with the arguments swapped");
  WITNESS("symmetric_swap", sym && k1 > k2 && k1 < 3); WITNESS("unlisted_type", k1 == 3);
  HARNESS_END();
}
void h_acyclic(void) {
  IN(u8, kind); VASSUME(kind < 3); i64 out[2] = {-7, -7};
  g_n = 0; g_h = -1; w_acyclic(kind, (u64*)out);
  /* first visitor handles VA (->1) and VB (->2); VC falls to the default catch-all (returns int()) */
  if (kind == 0) VASSERT(out[0] == 1, "acyclic visitor: the visit overload of the dynamic type VA runs");
  else if (kind == 1) VASSERT(out[0] == 2, "acyclic visitor: the visit overload of the dynamic type VB runs");
  else VASSERT(out[0] == 0, "acyclic visitor: an unhandled type reaches the catch-all policy, never another handler");
  /* second hierarchy with the throwing catch-all: TA handled (7), TC throws */
  VASSERT(out[1] == (kind == 0 ? 7 : -1), "throwing catch-all: an unhandled type raises, a handled one runs its handler");
  VASSERT(g_n == (kind == 0 ? 2 : kind == 1 ? 1 : 0), "only handlers registered for the dynamic type run");
  HARNESS_END();
}
void h_cyclic(void) {
  IN(u8, kind); VASSUME(kind < 2); i64 out[1] = {-7};
  g_n = 0; w_cyclic(kind, (u64*)out);
  VASSERT(out[0] == (kind ? 32 : 31) && g_n == 1 && g_h == (kind ? 302 : 301) && g_a == (kind ? 4 : 3), "cyclic visitor: generic_visit selects the overload of the dynamic type and passes the object itself");
  HARNESS_END();
}
