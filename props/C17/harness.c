/* C17 harnesses: dynamic types of the arguments are symbolic; handlers report (id, object ids in the order received, extra argument). */
#include "harness.h"
#include "gen.h"
static i32 g_n, g_h, g_a, g_b, g_e;
void hook_record(i32 handler, i32 first, i32 second, i32 extra) { g_n++; g_h = handler; g_a = first; g_b = second; g_e = extra; }
void h_static(void) {
  IN(u8, k1); IN(u8, k2); IN(u8, sym); IN(i32, extra); VASSUME(k1 < 4 && k2 < 4 && sym < 2);
  g_n = 0; w_static(k1, k2, sym, extra);
  VASSERT(g_n == 1 && g_e == extra, "exactly one handler (or on_error) runs and receives the undispatched argument unchanged");
  if (k1 == 3 || k2 == 3) VASSERT(g_h == 0 && g_a == 1 && g_b == 2, "a dynamic type outside the type list reaches on_error, never some other handler");
  else if (!sym || k1 <= k2) VASSERT(g_h == (k1 + 1) * 10 + (k2 + 1) && g_a == 1 && g_b == 2, "the handler of the tuple of dynamic types runs with the arguments in call order");
  else VASSERT(g_h == (k2 + 1) * 10 + (k1 + 1) && g_a == 2 && g_b == 1, "symmetric dispatch: dispatch(a,b) reaches the handler of (b,a) with the arguments swapped");
  WITNESS("symmetric_swap", sym && k1 > k2 && k1 < 3); WITNESS("unlisted_type", k1 == 3);
  HARNESS_END();
}
void h_acyclic(void) {
  IN(u8, kind); VASSUME(kind < 3); i64 out[2] = {-7, -7};
  g_n = 0; g_h = -1; w_acyclic(kind, (u64*)out);
  /* first visitor handles VA (->1) and VB (->2); VC falls to the default catch-all (returns int()) */
  if (kind == 0) VASSERT(out[0] == 1, "acyclic visitor: the visit overload of the dynamic type VA runs");
  else if (kind == 1) VASSERT(out[0] == 2, "acyclic visitor: the visit overload of the dynamic type VB runs");
  else VASSERT(out[0] == 0, "acyclic visitor: an unhandled type reaches the catch-all policy, never another handler");
  /* second hierarchy with the throwing catch-all: TA handled (7), TC throws */
  VASSERT(out[1] == (kind == 0 ? 7 : -1), "throwing catch-all: an unhandled type raises, a handled one runs its handler");
  VASSERT(g_n == (kind == 0 ? 2 : kind == 1 ? 1 : 0), "only handlers registered for the dynamic type run");
  HARNESS_END();
}
void h_cyclic(void) {
  IN(u8, kind); VASSUME(kind < 2); i64 out[1] = {-7};
  g_n = 0; w_cyclic(kind, (u64*)out);
  VASSERT(out[0] == (kind ? 32 : 31) && g_n == 1 && g_h == (kind ? 302 : 301) && g_a == (kind ? 4 : 3), "cyclic visitor: generic_visit selects the overload of the dynamic type and passes the object itself");
  HARNESS_END();
}
/* functor_dispatcher over basic_fast_dispatcher: registration history r1, r2, r3 (each one of 5 cells or "none"), then dispatch on symbolic dynamic types.
 * Model: a 3x3 table, last registration of a cell wins; an unregistered cell must raise (std::bad_function_call from the empty slot or runtime_error), never run a handler. */
void h_fast(void) {
  IN(u8, r1); IN(u8, r2); IN(u8, r3); IN(u8, k1); IN(u8, k2); IN(i32, extra); VASSUME(r1 < 6 && r2 < 6 && r3 < 6 && k1 < 3 && k2 < 3);
#ifdef HISTFIX
  VASSUME(r1 == HISTFIX / 100 && r2 == (HISTFIX / 10) % 10 && r3 == HISTFIX % 10);
#endif
  static const i32 CELL[5] = {11, 12, 21, 32, 23};                /* (row, col) + 1 each, as 10*row+col */
  i32 table[4][4]; for (int i = 0; i < 4; i++) for (int j = 0; j < 4; j++) table[i][j] = 0;
  u8 rs[3] = {r1, r2, r3};
  for (int g = 0; g < 3; g++) if (rs[g] < 5) table[CELL[rs[g]] / 10][CELL[rs[g]] % 10] = 1000 * (g + 1) + CELL[rs[g]];
  i64 out[2] = {-7, -7}; g_n = 0;
  w_fast(r1, r2, r3, k1, k2, extra, (u64*)out);
  i32 e = table[k1 + 1][k2 + 1];
  if (e) { VASSERT(out[0] == 0 && g_n == 1 && g_h == e, "the handler registered last for the tuple of dynamic types runs"); VASSERT(g_a == 1 && g_b == 2 && g_e == extra && out[1] == extra, "arguments arrive in registered order, the extra argument unchanged"); }
  else VASSERT(out[0] != 0 && g_n == 0, "no handler registered for the tuple: an exception, never some other handler");
  WITNESS("reregistered_cell", r1 == r3 && r1 < 5); WITNESS("registration_order_not_index_order", r1 == 3 && r2 == 0); WITNESS("only_permutation_registered", e == 0 && table[k2 + 1][k1 + 1] != 0);
  HARNESS_END();
}
