// C17 wrappers, table dispatchers.  The three classes are decided separately (the composition functor_dispatcher<std::function> over
// vector<vector<std::function>> gave no verdict, see prop.py):
//   w_fast2 / w_fast3 : basic_fast_dispatcher with a trivially copyable callback class (same contract as std::function: empty slot throws
//                       std::bad_function_call), 2 and 3 dispatched arguments, registration history symbolic
//   w_map             : basic_dispatcher (std::map keyed by type_index array) with the same callback class, insert/erase history symbolic
//   w_functor         : functor_dispatcher (real std::function, both casting policies) over a verif-side recording backend: it must forward
//                       insert<D...>/erase<D...>/dispatch unchanged and its wrapper must cast to D... and pass the extra argument by reference
#include <cstdint>
#include <stdexcept>
#include <functional>
#include <xtl/xmultimethods.hpp>
extern "C" void hook_record(int32_t handler, int32_t first_obj, int32_t second_obj, int32_t extra);
extern "C" void hook_record3(int32_t handler, int32_t a, int32_t b, int32_t c, int32_t extra);
#define W extern "C" __attribute__((noinline)) void
struct FBase { int id; explicit FBase(int i) : id(i) {} virtual ~FBase() {} virtual std::size_t get_class_index() const = 0; };
struct FA : FBase { using FBase::FBase; XTL_IMPLEMENT_INDEXABLE_CLASS() }; struct FB : FBase { using FBase::FBase; XTL_IMPLEMENT_INDEXABLE_CLASS() }; struct FC : FBase { using FBase::FBase; XTL_IMPLEMENT_INDEXABLE_CLASS() };
// callback with std::function's contract, but trivially copyable (vector growth is memmove, no manager calls)
template <class... A> struct mini_function
{
    using fp = void (*)(int32_t, A...);
    fp f = nullptr; int32_t h = 0;
    void operator()(A... a) const { if (!f) throw std::bad_function_call(); f(h, a...); }
};
using CB2 = mini_function<FBase&, FBase&, int&>;
using CB3 = mini_function<FBase&, FBase&, FBase&, int&>;
static void rec2(int32_t h, FBase& x, FBase& y, int& extra) { hook_record(h, x.id, y.id, extra); extra += 1; }
static void rec3(int32_t h, FBase& x, FBase& y, FBase& z, int& extra) { hook_record3(h, x.id, y.id, z.id, extra); extra += 1; }
static inline FBase* pick(int64_t k, FA& a, FB& b, FC& c) { return k == 0 ? static_cast<FBase*>(&a) : k == 1 ? static_cast<FBase*>(&b) : static_cast<FBase*>(&c); }
static inline void reset_indices() { FA::get_class_static_index() = SIZE_MAX; FB::get_class_static_index() = SIZE_MAX; FC::get_class_static_index() = SIZE_MAX; }   // one fresh dispatcher per hierarchy

// ---- basic_fast_dispatcher, two dispatched arguments: cell = 3*row+col (0..8), 9 = no registration; handler id = 1000*generation + 10*(row+1) + (col+1)
using FD2 = xtl::basic_fast_dispatcher<xtl::mpl::vector<FBase, FBase>, void, xtl::mpl::vector<int>, CB2>;
template <class X, class Y> static inline void ins2(FD2& d, int32_t h) { CB2 c; c.f = &rec2; c.h = h; d.insert<X, Y>(std::move(c)); }
static inline void reg2(FD2& d, int64_t cell, int gen)
{
    int32_t h = 1000 * gen + 10 * (int32_t(cell) / 3 + 1) + (int32_t(cell) % 3 + 1);
    switch (cell) {
        case 0: ins2<FA, FA>(d, h); break; case 1: ins2<FA, FB>(d, h); break; case 2: ins2<FA, FC>(d, h); break;
        case 3: ins2<FB, FA>(d, h); break; case 4: ins2<FB, FB>(d, h); break; case 5: ins2<FB, FC>(d, h); break;
        case 6: ins2<FC, FA>(d, h); break; case 7: ins2<FC, FB>(d, h); break; case 8: ins2<FC, FC>(d, h); break;
        default: break;
    }
}
W w_fast2(int64_t r1, int64_t r2, int64_t r3, int64_t k1, int64_t k2, int64_t extra, int64_t* out)
{
    reset_indices();
    FA a1(1), a2(2); FB b1(1), b2(2); FC c1(1), c2(2);
    FBase* x = pick(k1, a1, b1, c1); FBase* y = pick(k2, a2, b2, c2);
    int e = static_cast<int>(extra);
    try { FD2 d; reg2(d, r1, 1); reg2(d, r2, 2); reg2(d, r3, 3); d.dispatch(*x, *y, e); out[0] = 0; }
    catch (std::bad_function_call&) { out[0] = 1; } catch (std::runtime_error&) { out[0] = 2; } catch (...) { out[0] = 3; }
    out[1] = e;
}
// ---- three dispatched arguments: cell = 9*i+3*j+k restricted to a table of 6 tuples
using FD3 = xtl::basic_fast_dispatcher<xtl::mpl::vector<FBase, FBase, FBase>, void, xtl::mpl::vector<int>, CB3>;
template <class X, class Y, class Z> static inline void ins3(FD3& d, int32_t h) { CB3 c; c.f = &rec3; c.h = h; d.insert<X, Y, Z>(std::move(c)); }
static inline void reg3(FD3& d, int64_t sel, int gen)
{
    switch (sel) {   // handler id = 1000*generation + 100*(i+1) + 10*(j+1) + (k+1)
        case 0: ins3<FA, FA, FA>(d, 1000 * gen + 111); break; case 1: ins3<FA, FB, FA>(d, 1000 * gen + 121); break; case 2: ins3<FB, FA, FC>(d, 1000 * gen + 213); break;
        case 3: ins3<FC, FB, FA>(d, 1000 * gen + 321); break; case 4: ins3<FA, FC, FB>(d, 1000 * gen + 132); break; case 5: ins3<FB, FB, FB>(d, 1000 * gen + 222); break;
        default: break;
    }
}
W w_fast3(int64_t r1, int64_t r2, int64_t k1, int64_t k2, int64_t k3, int64_t extra, int64_t* out)
{
    reset_indices();
    FA a1(1), a2(2), a3(3); FB b1(1), b2(2), b3(3); FC c1(1), c2(2), c3(3);
    FBase* x = pick(k1, a1, b1, c1); FBase* y = pick(k2, a2, b2, c2); FBase* z = pick(k3, a3, b3, c3);
    int e = static_cast<int>(extra);
    try { FD3 d; reg3(d, r1, 1); reg3(d, r2, 2); d.dispatch(*x, *y, *z, e); out[0] = 0; }
    catch (std::bad_function_call&) { out[0] = 1; } catch (std::runtime_error&) { out[0] = 2; } catch (...) { out[0] = 3; }
    out[1] = e;
}
// ---- functor_dispatcher (real std::function wrapper lambdas, both casting policies) over a recording backend ----
// The backend has the interface functor_dispatcher requires of basic_dispatcher / basic_fast_dispatcher (insert<D...>(callback&&), erase<D...>(),
// dispatch(B&..., T&...)) and a fixed 3x3 table keyed by a compile-time class number, so what is decided here is functor_dispatcher itself: it forwards
// the type tuple D... of insert/erase unchanged, the stored wrapper casts each argument to D... with the casting policy, keeps the argument order,
// passes the undispatched argument BY REFERENCE, and dispatch forwards its arguments in order.
struct GBase { int id; explicit GBase(int i) : id(i) {} virtual ~GBase() {} virtual int num() const = 0; };
struct GPad { long pad; virtual ~GPad() {} };
struct GA : GBase { using GBase::GBase; static constexpr int N = 0; int num() const override { return 0; } };
struct GB : GPad, GBase { explicit GB(int i) : GBase(i) {} static constexpr int N = 1; int num() const override { return 1; } };   // GBase is not the primary base: casts adjust the pointer
struct GC : GBase { using GBase::GBase; static constexpr int N = 2; int num() const override { return 2; } };
template <class TL, class R, class UL, class CBT> class rec_backend;
template <class R, class CBT, class B1, class B2, class... T>
class rec_backend<xtl::mpl::vector<B1, B2>, R, xtl::mpl::vector<T...>, CBT>
{
    CBT m_tab[3][3];
public:
    template <class D1, class D2> void insert(CBT&& cb) { m_tab[D1::N][D2::N] = std::move(cb); }
    template <class D1, class D2> void erase() { m_tab[D1::N][D2::N] = CBT(); }
    R dispatch(B1& x, B2& y, T&... ud) const { return m_tab[x.num()][y.num()](x, y, ud...); }
};
static int g_copies;
struct Extra { int v; Extra(int x) : v(x) {} Extra(const Extra& o) : v(o.v) { ++g_copies; } };
template <class X, class Y> struct Fun { int32_t h; int operator()(X& x, Y& y, Extra& e) const { hook_record(h, x.id, y.id, e.v); e.v += 1; return h + (&static_cast<GBase&>(x) != &static_cast<GBase&>(y) ? 0 : 1); } };
template <template <class, class> class CAST> using GD = xtl::functor_dispatcher<xtl::mpl::vector<GBase, GBase>, int, xtl::mpl::vector<Extra>, CAST, rec_backend>;
template <class D, class X, class Y> static inline void gins(D& d, int32_t h) { d.template insert<X, Y>(Fun<X, Y>{h}); }
template <class D> static inline void greg(D& d, int64_t cell, int gen)
{
    int32_t h = 1000 * gen + 10 * (int32_t(cell % 9) / 3 + 1) + (int32_t(cell % 9) % 3 + 1);
    switch (cell) {
        case 0: gins<D, GA, GA>(d, h); break; case 1: gins<D, GA, GB>(d, h); break; case 2: gins<D, GA, GC>(d, h); break;
        case 3: gins<D, GB, GA>(d, h); break; case 4: gins<D, GB, GB>(d, h); break; case 5: gins<D, GB, GC>(d, h); break;
        case 6: gins<D, GC, GA>(d, h); break; case 7: gins<D, GC, GB>(d, h); break; case 8: gins<D, GC, GC>(d, h); break;
        case 9: d.template erase<GA, GA>(); break; case 10: d.template erase<GA, GB>(); break; case 11: d.template erase<GA, GC>(); break;
        case 12: d.template erase<GB, GA>(); break; case 13: d.template erase<GB, GB>(); break; case 14: d.template erase<GB, GC>(); break;
        case 15: d.template erase<GC, GA>(); break; case 16: d.template erase<GC, GB>(); break; case 17: d.template erase<GC, GC>(); break;
        default: break;
    }
}
template <class D> static inline void run_functor(int64_t r1, int64_t r2, int64_t r3, int64_t k1, int64_t k2, int64_t extra, int64_t* out)
{
    GA a1(1), a2(2); GB b1(1), b2(2); GC c1(1), c2(2);
    GBase* x = k1 == 0 ? static_cast<GBase*>(&a1) : k1 == 1 ? static_cast<GBase*>(&b1) : static_cast<GBase*>(&c1);
    GBase* y = k2 == 0 ? static_cast<GBase*>(&a2) : k2 == 1 ? static_cast<GBase*>(&b2) : static_cast<GBase*>(&c2);
    Extra e(static_cast<int>(extra)); g_copies = 0;
    try { D d; greg(d, r1, 1); greg(d, r2, 2); greg(d, r3, 3); g_copies = 0; out[2] = d.dispatch(*x, *y, e); out[0] = 0; }
    catch (std::bad_function_call&) { out[0] = 1; } catch (std::runtime_error&) { out[0] = 2; } catch (...) { out[0] = 3; }
    out[1] = e.v; out[3] = g_copies;
}
W w_functor(int64_t dyn, int64_t r1, int64_t r2, int64_t r3, int64_t k1, int64_t k2, int64_t extra, int64_t* out)
{
    if (dyn) run_functor<GD<xtl::dynamic_caster>>(r1, r2, r3, k1, k2, extra, out); else run_functor<GD<xtl::static_caster>>(r1, r2, r3, k1, k2, extra, out);
}
// ---- basic_dispatcher (std::map keyed by std::array<std::type_index, 2>): history of 3 steps (insert / erase / nothing), then dispatch on typeid of the arguments ----
struct MBase { int id; explicit MBase(int i) : id(i) {} virtual ~MBase() {} };
struct MA : MBase { using MBase::MBase; }; struct MB : MBase { using MBase::MBase; }; struct MC : MBase { using MBase::MBase; };
using MCB = mini_function<MBase&, MBase&, int&>;
static void recm(int32_t h, MBase& x, MBase& y, int& extra) { hook_record(h, x.id, y.id, extra); extra += 1; }
using MD = xtl::basic_dispatcher<xtl::mpl::vector<MBase, MBase>, void, xtl::mpl::vector<int>, MCB>;
template <class X, class Y> static inline void mins(MD& d, int32_t h) { MCB c; c.f = &recm; c.h = h; d.insert<X, Y>(std::move(c)); }
static inline void mreg(MD& d, int64_t cell, int gen)
{
    int32_t h = 1000 * gen + 10 * (int32_t(cell % 9) / 3 + 1) + (int32_t(cell % 9) % 3 + 1);
    switch (cell) {
        case 0: mins<MA, MA>(d, h); break; case 1: mins<MA, MB>(d, h); break; case 2: mins<MA, MC>(d, h); break;
        case 3: mins<MB, MA>(d, h); break; case 4: mins<MB, MB>(d, h); break; case 5: mins<MB, MC>(d, h); break;
        case 6: mins<MC, MA>(d, h); break; case 7: mins<MC, MB>(d, h); break; case 8: mins<MC, MC>(d, h); break;
        case 9: d.erase<MA, MA>(); break; case 10: d.erase<MA, MB>(); break; case 11: d.erase<MA, MC>(); break;
        case 12: d.erase<MB, MA>(); break; case 13: d.erase<MB, MB>(); break; case 14: d.erase<MB, MC>(); break;
        case 15: d.erase<MC, MA>(); break; case 16: d.erase<MC, MB>(); break; case 17: d.erase<MC, MC>(); break;
        default: break;
    }
}
W w_map(int64_t r1, int64_t r2, int64_t r3, int64_t k1, int64_t k2, int64_t extra, int64_t* out)
{
    MA a1(1), a2(2); MB b1(1), b2(2); MC c1(1), c2(2);
    MBase* x = k1 == 0 ? static_cast<MBase*>(&a1) : k1 == 1 ? static_cast<MBase*>(&b1) : static_cast<MBase*>(&c1);
    MBase* y = k2 == 0 ? static_cast<MBase*>(&a2) : k2 == 1 ? static_cast<MBase*>(&b2) : static_cast<MBase*>(&c2);
    int e = static_cast<int>(extra);
    try { MD d; mreg(d, r1, 1); mreg(d, r2, 2); mreg(d, r3, 3); d.dispatch(*x, *y, e); out[0] = 0; }
    catch (std::bad_function_call&) { out[0] = 1; } catch (std::runtime_error&) { out[0] = 2; } catch (...) { out[0] = 3; }
    out[1] = e;
}
