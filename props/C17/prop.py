"""C17 - multimethods and visitors call exactly the handler for the dynamic types (static dispatcher and visitors)."""
ID = 'C17'
CLAIM = ('PARTIAL. static_dispatcher (antisymmetric and symmetric) over Base <- A, B, C plus an unlisted class D with symbolic dynamic types of both arguments: the handler of the dynamic type tuple, argument order, '
         'symmetric swap, on_error for unlisted types, extra argument unchanged; acyclic visitor (default and throwing catch-all, multiple-inheritance side cast) and cyclic visitor. dynamic_cast runs a model of '
         '__dynamic_cast over the type_info objects of the translated module. NOT built: basic_dispatcher / basic_fast_dispatcher / functor_dispatcher (std::map, std::type_index, nested std::function tables)')
BOUNDS = {'quick': '4 dynamic types per argument (3 listed + 1 unlisted), 2 dispatched arguments, all extra-argument values; visitors over 2-3 visitable classes', 'thorough': 'same, second back end'}
NOT_COVERED = ['functor_dispatcher over basic_dispatcher and basic_fast_dispatcher, registration/erasure histories, lazy class indices: not built (std::map rebalancing and type_index hashing are out-of-line libstdc++ code; the nested std::vector<std::function> '
               'tables of the fast dispatcher gave no verdict within 300 s per registration history) - a defect confined to those classes is NOT detected', 'three dispatched arguments; virtual inheritance']
ASSUMPTIONS = ['__dynamic_cast is modelled (rt/cxxabi_model.c) for public non-virtual inheritance graphs of depth <= 3, reading dynamic type and offset-to-top from the vtable']
INERT = ['_ZNSt13runtime_errorC[12]EPKc', '_ZNSt13runtime_errorD[012]Ev', '_ZNSt17bad_function_callD[012]Ev']


# concrete registration histories that are decided within the budget (measured: 2-4 s each; the others - mostly histories that register a class whose index is assigned
# after a higher one, which reallocates the nested vectors out of order - gave no verdict in 60 s and are NOT covered)
MAP_HIST = [(0, 0, 18), (1, 3, 18), (1, 10, 18), (1, 12, 18), (10, 1, 18), (4, 4, 13), (2, 6, 18), (8, 17, 8), (1, 10, 1), (1, 1, 10), (0, 4, 8), (5, 3, 1), (7, 7, 7), (3, 12, 3)]
FAST3_HIST = [0, 1, 2, 4, 5, 6, 10, 11, 12, 15, 16, 20, 21, 22, 25, 26, 33, 35, 36, 40, 44, 46, 50, 51, 52, 53, 55, 56, 60, 61, 62, 63, 64, 65, 66]
FAST2_HIST = [9, 19, 29, 39, 49, 59, 69, 79, 89, 99, 109, 119, 129, 139, 149, 159, 199, 209, 219, 229, 269, 279, 289, 299, 309, 319, 329, 339, 349, 359, 399, 409, 419, 429, 439, 449, 459, 469, 479, 489, 499, 539, 549, 559, 569, 579, 589, 599, 609, 619, 629, 669, 679, 689, 699, 739, 749, 759, 769, 779, 789, 799, 809, 819, 829, 839, 849, 859, 869, 879, 889, 899, 909, 919, 929, 939, 949, 959, 969, 979, 989, 999, 123, 448, 400, 876, 210]


def units(tier):
    return [Unit('dispatch', 'wrappers.cpp', ['harness.c'], inert=INERT, rt=('verif_rt.c', 'cxxabi_model.c', 'libstdcxx_models.c'), tv=[('h_static', []), ('h_acyclic', []), ('h_cyclic', []), ('h_fast', [])], tv_iters=5000),
            Unit('tab', 'wrappers_tab.cpp', ['harness_tab.c'], inert=INERT, rt=('verif_rt.c', 'cxxabi_model.c', 'libstdcxx_models.c', 'rbtree_model.c'), tv=[('h_fast2', []), ('h_fast3', []), ('h_functor', []), ('h_map', [])], tv_iters=5000)]


def obligations(tier):
    obs = [Ob('static_dispatcher', 'dispatch', 'h_static', unwind=6, bound='all dynamic type pairs', min_witnesses=2), Ob('acyclic_visitor', 'dispatch', 'h_acyclic', unwind=6, bound='all visitable types'),
           Ob('cyclic_visitor', 'dispatch', 'h_cyclic', unwind=6, bound='all visitable types')]
    # functor_dispatcher over basic_fast_dispatcher (h_fast / w_fast, kept for native translation validation only): one registration history with symbolic
    # dynamic types gave no verdict within 300 s (nested std::vector<std::function> reallocation paths), so it is not an obligation and not claimed
    obs += [Ob('functor', 'tab', 'h_functor', unwind=10, mem_unwind=40, bound='3 insert/erase steps over 9 cells, both casting policies, all dynamic type pairs', min_witnesses=3, timeout=600),
            ]
    # basic_dispatcher over the real std::map (rb-tree primitives modelled): concrete insert/erase histories (steps 0..8 insert cell, 9..17 erase cell, 18 nothing); a symbolic
    # two-step history gave no verdict in 900 s
    for (a, b, c) in MAP_HIST:
        ob = Ob('map/h%02d_%02d_%02d' % (a, b, c), 'tab', 'h_map', defines=['HIST3=%d' % (361 * a + 19 * b + c)], unwind=6, mem_unwind=40, bound='history %d, %d, %d; all dynamic type pairs' % (a, b, c), min_witnesses=1, timeout=600); ob.harness_unwind = 12; obs.append(ob)
    # basic_fast_dispatcher: one obligation per CONCRETE registration history (symbolic histories gave no verdict in 900 s: the nested vector reallocation paths);
    # dynamic types of the arguments and the extra argument stay symbolic
    import os
    probe = os.environ.get('C17_PROBE')
    f3 = [10 * a + b for a in range(7) for b in range(7)] if probe else FAST3_HIST
    f2 = ([100 * a + 10 * b + 9 for a in range(10) for b in range(10)] + [705, 123, 448, 400, 84, 876, 210, 36, 363, 581]) if probe else FAST2_HIST
    for h in f3:
        obs.append(Ob('fast3/h%02d' % h, 'tab', 'h_fast3', defines=['HIST=%d' % h], unwind=5, mem_unwind=80, bound='registrations %d then %d (6 = none) of the triples table, all dynamic type triples' % (h // 10, h % 10), min_witnesses=1, timeout=60 if probe else 300))
    for h in f2:
        ob = Ob('fast2/h%03d' % h, 'tab', 'h_fast2', defines=['HIST=%d' % h], unwind=5, mem_unwind=80, bound='registrations of cells %d, %d, %d (9 = none), all dynamic type pairs' % (h // 100, h // 10 % 10, h % 10), min_witnesses=1, timeout=60 if probe else 300); ob.harness_unwind = 12; obs.append(ob)
    if tier == 'thorough': obs += [Ob(o.name + '@cadical', o.unit, o.fn, defines=o.defines, unwind=o.unwind, mem_unwind=o.mem_unwind, backend='cadical', min_witnesses=o.min_witnesses, timeout=1800) for o in list(obs)]
    return obs
