"""C17 - multimethods and visitors call exactly the handler for the dynamic types (static dispatcher and visitors)."""
ID = 'C17'
CLAIM = ('PARTIAL. static_dispatcher (antisymmetric and symmetric) over Base <- A, B, C plus an unlisted class D with symbolic dynamic types of both arguments: the handler of the dynamic type tuple, argument order, '
         'symmetric swap, on_error for unlisted types, extra argument unchanged; acyclic visitor (default and throwing catch-all, multiple-inheritance side cast) and cyclic visitor. dynamic_cast runs a model of '
         '__dynamic_cast over the type_info objects of the translated module. NOT built: basic_dispatcher / basic_fast_dispatcher / functor_dispatcher (std::map, std::type_index, nested std::function tables)')
BOUNDS = {'quick': '4 dynamic types per argument (3 listed + 1 unlisted), 2 dispatched arguments, all extra-argument values; visitors over 2-3 visitable classes', 'thorough': 'same, second back end'}
NOT_COVERED = ['functor_dispatcher over basic_dispatcher and basic_fast_dispatcher, registration/erasure histories, lazy class indices: not built (std::map rebalancing and type_index hashing are out-of-line libstdc++ code; the nested std::vector<std::function> '
               'tables of the fast dispatcher gave no verdict within 300 s per registration history) - a defect confined to those classes is NOT detected', 'three dispatched arguments; virtual inheritance']
ASSUMPTIONS = ['__dynamic_cast is modelled (rt/cxxabi_model.c) for public non-virtual inheritance graphs of depth <= 3, reading dynamic type and offset-to-top from the vtable']
INERT = ['_ZNSt13runtime_errorC[12]EPKc', '_ZNSt13runtime_errorD[012]Ev', '_ZNSt17bad_function_callD[012]Ev']


def units(tier):
    return [Unit('dispatch', 'wrappers.cpp', ['harness.c'], inert=INERT, rt=('verif_rt.c', 'cxxabi_model.c', 'libstdcxx_models.c'), tv=[('h_static', []), ('h_acyclic', []), ('h_cyclic', []), ('h_fast', [])], tv_iters=5000),
            Unit('tab', 'wrappers_tab.cpp', ['harness_tab.c'], inert=INERT, rt=('verif_rt.c', 'cxxabi_model.c', 'libstdcxx_models.c', 'rbtree_model.c'), tv=[('h_fast2', []), ('h_fast3', []), ('h_functor', []), ('h_map', [])], tv_iters=5000)]


def obligations(tier):
    obs = [Ob('static_dispatcher', 'dispatch', 'h_static', unwind=6, bound='all dynamic type pairs', min_witnesses=2), Ob('acyclic_visitor', 'dispatch', 'h_acyclic', unwind=6, bound='all visitable types'),
           Ob('cyclic_visitor', 'dispatch', 'h_cyclic', unwind=6, bound='all visitable types')]
    # functor_dispatcher over basic_fast_dispatcher (h_fast / w_fast, kept for native translation validation only): one registration history with symbolic
    # dynamic types gave no verdict within 300 s (nested std::vector<std::function> reallocation paths), so it is not an obligation and not claimed
    obs += [Ob('functor', 'tab', 'h_functor', unwind=10, mem_unwind=40, bound='3 insert/erase steps over 9 cells, both casting policies, all dynamic type pairs', min_witnesses=3, timeout=600),
            Ob('map2', 'tab', 'h_map', defines=['STEPS2'], unwind=6, mem_unwind=40, bound='2 insert/erase steps over 9 cells, all dynamic type pairs', min_witnesses=2, timeout=900)]
    if tier == 'thorough': obs += [Ob(o.name + '@cadical', o.unit, o.fn, defines=o.defines, unwind=o.unwind, mem_unwind=o.mem_unwind, backend='cadical', min_witnesses=o.min_witnesses, timeout=1800) for o in list(obs)]
    return obs
