// C17 wrappers: static_dispatcher (antisymmetric and symmetric) over a hierarchy Base <- A, B, C and the acyclic / cyclic visitors.
// Handlers record (handler id, which argument object came first, extra) through hook_record; the dynamic types of the arguments are symbolic.
#include <cstdint>
#include <stdexcept>
#include <xtl/xmultimethods.hpp>
#include <xtl/xvisitor.hpp>
extern "C" void hook_record(int32_t handler, int32_t first_obj, int32_t second_obj, int32_t extra);
struct Base { int id; explicit Base(int i) : id(i) {} virtual ~Base() {} };
struct A : Base { using Base::Base; }; struct B : Base { using Base::Base; }; struct C : Base { using Base::Base; }; struct D : Base { using Base::Base; };   // D is never in a type list
struct Exec
{
    int extra;
    void run(A& x, A& y) { hook_record(11, x.id, y.id, extra); } void run(A& x, B& y) { hook_record(12, x.id, y.id, extra); } void run(A& x, C& y) { hook_record(13, x.id, y.id, extra); }
    void run(B& x, A& y) { hook_record(21, x.id, y.id, extra); } void run(B& x, B& y) { hook_record(22, x.id, y.id, extra); } void run(B& x, C& y) { hook_record(23, x.id, y.id, extra); }
    void run(C& x, A& y) { hook_record(31, x.id, y.id, extra); } void run(C& x, B& y) { hook_record(32, x.id, y.id, extra); } void run(C& x, C& y) { hook_record(33, x.id, y.id, extra); }
    void on_error(Base& x, Base& y) { hook_record(0, x.id, y.id, extra); }
};
#define W extern "C" __attribute__((noinline)) void
static inline Base* mk(int64_t kind, int id, A& a, B& b, C& c, D& d) { (void)id; return kind == 0 ? static_cast<Base*>(&a) : kind == 1 ? static_cast<Base*>(&b) : kind == 2 ? static_cast<Base*>(&c) : static_cast<Base*>(&d); }
W w_static(int64_t k1, int64_t k2, int64_t symmetric, int64_t extra)
{
    A a1(1), a2(2); B b1(1), b2(2); C c1(1), c2(2); D d1(1), d2(2);
    Base* x = mk(k1, 1, a1, b1, c1, d1); Base* y = mk(k2, 2, a2, b2, c2, d2);
    Exec e{static_cast<int>(extra)};
    if (symmetric) xtl::static_dispatcher<Exec, Base, xtl::mpl::vector<A, B, C>, void, xtl::symmetric_dispatch>::dispatch(*x, *y, e);
    else xtl::static_dispatcher<Exec, Base, xtl::mpl::vector<A, B, C>, void, xtl::antisymmetric_dispatch>::dispatch(*x, *y, e);
}
// acyclic visitor: VA, VB, VC visitable; visitor V1 handles A and B only
struct VBase : xtl::base_visitable<int> { int id; explicit VBase(int i) : id(i) {} };
struct VA : VBase { using VBase::VBase; XTL_DEFINE_VISITABLE() }; struct VB : VBase { using VBase::VBase; XTL_DEFINE_VISITABLE() }; struct VC : VBase { using VBase::VBase; XTL_DEFINE_VISITABLE() };
struct V1 : xtl::base_visitor, xtl::visitor<VA, int, false>, xtl::visitor<VB, int, false> { int visit(VA& x) override { hook_record(101, x.id, 0, 0); return 1; } int visit(VB& x) override { hook_record(102, x.id, 0, 0); return 2; } };
struct TBase : xtl::base_visitable<int, false, xtl::throwing_catch_all> { int id; explicit TBase(int i) : id(i) {} };
struct TA : TBase { using TBase::TBase; XTL_DEFINE_VISITABLE() }; struct TC : TBase { using TBase::TBase; XTL_DEFINE_VISITABLE() };
struct V2 : xtl::base_visitor, xtl::visitor<TA, int, false> { int visit(TA& x) override { hook_record(201, x.id, 0, 0); return 7; } };
W w_acyclic(int64_t kind, int64_t* out)
{
    VA a(5); VB b(6); VC c(7); V1 v; VBase* x = kind == 0 ? static_cast<VBase*>(&a) : kind == 1 ? static_cast<VBase*>(&b) : static_cast<VBase*>(&c);
    out[0] = x->accept(v);
    TA ta(8); TC tc(9); V2 v2; TBase* t = kind == 0 ? static_cast<TBase*>(&ta) : static_cast<TBase*>(&tc);
    try { out[1] = t->accept(v2); } catch (std::runtime_error&) { out[1] = -1; }
}
// cyclic visitor
struct CA; struct CB;
using CV = xtl::cyclic_visitor<xtl::mpl::vector<CA, CB>, int, false>;
struct CBase { int id; explicit CBase(int i) : id(i) {} virtual ~CBase() {} virtual int accept(CV&) = 0; };
struct CA : CBase { using CBase::CBase; XTL_DEFINE_CYCLIC_VISITABLE(CV) }; struct CB : CBase { using CBase::CBase; XTL_DEFINE_CYCLIC_VISITABLE(CV) };
struct CVis : CV { int visit(CA& x) override { hook_record(301, x.id, 0, 0); return 31; } int visit(CB& x) override { hook_record(302, x.id, 0, 0); return 32; } };
W w_cyclic(int64_t kind, int64_t* out) { CA a(3); CB b(4); CVis v; CBase* x = kind == 0 ? static_cast<CBase*>(&a) : static_cast<CBase*>(&b); out[0] = x->accept(v); }
// ---- functor_dispatcher over basic_fast_dispatcher (static casting): symbolic registration history of up to 3 inserts, then one dispatch ----
#include <functional>
struct FBase { int id; explicit FBase(int i) : id(i) {} virtual ~FBase() {} virtual std::size_t get_class_index() const = 0; };
struct FA : FBase { using FBase::FBase; XTL_IMPLEMENT_INDEXABLE_CLASS() }; struct FB : FBase { using FBase::FBase; XTL_IMPLEMENT_INDEXABLE_CLASS() }; struct FC : FBase { using FBase::FBase; XTL_IMPLEMENT_INDEXABLE_CLASS() };
template <int H, class X, class Y> static void fh(X& x, Y& y, int& extra) { hook_record(H, x.id, y.id, extra); }
using FD = xtl::functor_dispatcher<xtl::mpl::vector<FBase, FBase>, void, xtl::mpl::vector<int>, xtl::static_caster, xtl::basic_fast_dispatcher>;
static inline void reg(FD& d, int64_t cell, int gen)
{
    switch (cell) {   // handler id = 1000*generation + 10*row + col  (generation distinguishes re-registration of the same cell: last one wins)
        case 0: if (gen == 1) d.insert<FA, FA>(&fh<1011, FA, FA>); else if (gen == 2) d.insert<FA, FA>(&fh<2011, FA, FA>); else d.insert<FA, FA>(&fh<3011, FA, FA>); break;
        case 1: if (gen == 1) d.insert<FA, FB>(&fh<1012, FA, FB>); else if (gen == 2) d.insert<FA, FB>(&fh<2012, FA, FB>); else d.insert<FA, FB>(&fh<3012, FA, FB>); break;
        case 2: if (gen == 1) d.insert<FB, FA>(&fh<1021, FB, FA>); else if (gen == 2) d.insert<FB, FA>(&fh<2021, FB, FA>); else d.insert<FB, FA>(&fh<3021, FB, FA>); break;
        case 3: if (gen == 1) d.insert<FC, FB>(&fh<1032, FC, FB>); else if (gen == 2) d.insert<FC, FB>(&fh<2032, FC, FB>); else d.insert<FC, FB>(&fh<3032, FC, FB>); break;
        case 4: if (gen == 1) d.insert<FB, FC>(&fh<1023, FB, FC>); else if (gen == 2) d.insert<FB, FC>(&fh<2023, FB, FC>); else d.insert<FB, FC>(&fh<3023, FB, FC>); break;
        default: break;   // no registration
    }
}
W w_fast(int64_t r1, int64_t r2, int64_t r3, int64_t k1, int64_t k2, int64_t extra, int64_t* out)
{
    FA::get_class_static_index() = SIZE_MAX; FB::get_class_static_index() = SIZE_MAX; FC::get_class_static_index() = SIZE_MAX;   // one fresh dispatcher per hierarchy
    FA a1(1), a2(2); FB b1(1), b2(2); FC c1(1), c2(2);
    FBase* x = k1 == 0 ? static_cast<FBase*>(&a1) : k1 == 1 ? static_cast<FBase*>(&b1) : static_cast<FBase*>(&c1);
    FBase* y = k2 == 0 ? static_cast<FBase*>(&a2) : k2 == 1 ? static_cast<FBase*>(&b2) : static_cast<FBase*>(&c2);
    int e = static_cast<int>(extra);
    try { FD d; reg(d, r1, 1); reg(d, r2, 2); reg(d, r3, 3); d.dispatch(*x, *y, e); out[0] = 0; out[1] = e; }
    catch (std::bad_function_call&) { out[0] = 1; } catch (std::runtime_error&) { out[0] = 2; } catch (...) { out[0] = 3; }
}
