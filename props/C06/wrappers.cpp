// C06 wrappers of the one-step obligations (shared text in wrappers_base.inc)
#include "wrappers_base.inc"
