// C06 wrappers: xtl::any with lifetime-tracking payloads on both sides of the in-place / heap threshold.
// kinds: 0 empty, 1 int, 2 Small (in place: 8 bytes, nothrow move, copy may throw), 3 Stm (small but throwing move => heap), 4 Big (24 bytes => heap)
#include <cstdint>
#include <utility>
#include <typeinfo>
#include <xtl/xany.hpp>
extern "C" { void hook_val(const void* p, int32_t v); void hook_ctor(int32_t cls, const void* p); void hook_dtor(int32_t cls, const void* p); void hook_src(int32_t cls, const void* p); int32_t hook_throw(int32_t site); }
struct TErr {};
struct Small { int v; explicit Small(int x) : v(x) { hook_ctor(2, this); hook_val(this, v); }
    Small(const Small& o) : v(o.v) { hook_src(2, &o); if (hook_throw(1)) throw TErr(); hook_ctor(2, this); hook_val(this, v); }
    Small(Small&& o) noexcept : v(o.v) { hook_src(2, &o); hook_ctor(2, this); hook_val(this, v); }
    Small& operator=(const Small& o) { hook_src(2, &o); v = o.v; hook_val(this, v); return *this; } ~Small() { hook_val(this, -1 - v); hook_dtor(2, this); } };
struct Stm { int v; explicit Stm(int x) : v(x) { hook_ctor(3, this); hook_val(this, v); }
    Stm(const Stm& o) : v(o.v) { hook_src(3, &o); if (hook_throw(2)) throw TErr(); hook_ctor(3, this); hook_val(this, v); }
    Stm(Stm&& o) : v(o.v) { hook_src(3, &o); if (hook_throw(3)) throw TErr(); hook_ctor(3, this); hook_val(this, v); }
    Stm& operator=(const Stm& o) { hook_src(3, &o); v = o.v; hook_val(this, v); return *this; } ~Stm() { hook_val(this, -1 - v); hook_dtor(3, this); } };
struct Big { int v; int pad[5]; explicit Big(int x) : v(x), pad{1, 2, 3, 4, 5} { hook_ctor(4, this); hook_val(this, v); }
    Big(const Big& o) : v(o.v), pad{1, 2, 3, 4, 5} { hook_src(4, &o); if (hook_throw(4)) throw TErr(); hook_ctor(4, this); hook_val(this, v); }
    Big(Big&& o) noexcept : v(o.v), pad{1, 2, 3, 4, 5} { hook_src(4, &o); hook_ctor(4, this); hook_val(this, v); }
    Big& operator=(const Big& o) { hook_src(4, &o); v = o.v; hook_val(this, v); return *this; } ~Big() { hook_val(this, -1 - v); hook_dtor(4, this); } };
static_assert(std::is_nothrow_move_constructible<Small>::value && sizeof(Small) <= 2 * sizeof(void*), "Small is stored in place");
static_assert(!std::is_nothrow_move_constructible<Stm>::value && sizeof(Big) > 2 * sizeof(void*), "Stm and Big are stored on the heap");
using xtl::any;
#define W extern "C" __attribute__((noinline)) int64_t
static inline void build(any& a, int64_t kind, int64_t val)
{
    int x = static_cast<int>(val);
    if (kind == 1) a = x; else if (kind == 2) a = Small(x); else if (kind == 3) a = Stm(x); else if (kind == 4) a = Big(x);
}
// out[0] = kind observed through type() (0 empty) [1] = has_value [2] = empty [3] = value via pointer any_cast of the exact type [4] = bits: pointer casts to each of the 4 types non-null
// [5] = const pointer casts bits [6] = number of reference-form casts (to the 4 types) that threw bad_any_cast [7] = value via reference-form cast of the exact type
static inline void observe(any& a, int64_t* out)
{
    const any& c = a;
    int64_t k = a.type() == typeid(void) ? 0 : a.type() == typeid(int) ? 1 : a.type() == typeid(Small) ? 2 : a.type() == typeid(Stm) ? 3 : a.type() == typeid(Big) ? 4 : 9;
    out[0] = k; out[1] = a.has_value(); out[2] = a.empty();
    int* pi = xtl::any_cast<int>(&a); Small* ps = xtl::any_cast<Small>(&a); Stm* pt = xtl::any_cast<Stm>(&a); Big* pb = xtl::any_cast<Big>(&a);
    out[3] = pi ? *pi : ps ? ps->v : pt ? pt->v : pb ? pb->v : -1;
    out[4] = (int64_t)(pi != nullptr) | (int64_t)(ps != nullptr) << 1 | (int64_t)(pt != nullptr) << 2 | (int64_t)(pb != nullptr) << 3;
    out[5] = (int64_t)(xtl::any_cast<int>(&c) != nullptr) | (int64_t)(xtl::any_cast<const Small>(&c) != nullptr) << 1 | (int64_t)(xtl::any_cast<Stm>(&c) != nullptr) << 2 | (int64_t)(xtl::any_cast<const Big>(&a) != nullptr) << 3;
    int64_t thrown = 0, val = -1;
    try { val = xtl::any_cast<int&>(a); } catch (xtl::bad_any_cast&) { ++thrown; }
    try { val = xtl::any_cast<const Small&>(c).v; } catch (xtl::bad_any_cast&) { ++thrown; }
    try { val = xtl::any_cast<Stm&>(a).v; } catch (xtl::bad_any_cast&) { ++thrown; }
    try { val = xtl::any_cast<const Big&>(a).v; } catch (xtl::bad_any_cast&) { ++thrown; }
    out[6] = thrown; out[7] = val;
    out[8] = (int64_t)(xtl::any_cast<long>(&a) != nullptr) | (int64_t)(xtl::any_cast<unsigned>(&a) != nullptr) << 1 | (int64_t)(xtl::any_cast<int*>(&a) != nullptr) << 2;   // similar but different types
}
W w_op(int64_t k1, int64_t x1, int64_t k2, int64_t x2, int64_t op, int64_t arg, int64_t* o1, int64_t* o2, int64_t* o3)
{
    int64_t rc = 0;
    {
        any a, b; build(a, k1, x1); build(b, k2, x2);
        o3[0] = -1;
        int x = static_cast<int>(arg);
        try
        {
            switch (op)
            {
                case 0: { any u(a); observe(u, o3); } break;
                case 1: { any u(std::move(a)); observe(u, o3); } break;
                case 2: a = b; break;
                case 3: a = std::move(b); break;
                case 4: a = x; break;
                case 5: { Small s(x); a = s; } break;                 // assignment from an lvalue value (copy, may throw)
                case 6: a = Small(x); break;                          // from an rvalue (nothrow move)
                case 7: { Stm s(x); a = s; } break;
                case 8: { Big g(x); a = g; } break;
                case 9: a.swap(b); break;
                case 10: a.swap(a); break;                            // swap with itself
                case 11: { using std::swap; swap(a, b); } break;
                case 12: a.reset(); break;
                case 13: a.clear(); break;
                case 14: { any u((Big(x))); observe(u, o3); } break;    // construction from a value
                case 15: { any u; u = a; u = b; observe(u, o3); } break;   // a copy is independent of its source
                default: { any u(std::move(a)); a = x; observe(u, o3); } break;   // a moved-from any can be assigned
            }
        }
        catch (TErr&) { rc = 1; }
        catch (...) { rc = 2; }
        observe(a, o1); observe(b, o2);
    }
    return rc;
}
// ---- assignment from an any that lives INSIDE the value currently held by the target (a node replaced by its own child) ----
// (tag first: the ledger identifies objects by address, so the contained any must not share the address of its enclosing Holder)
struct Holder { long tag; any inner; explicit Holder(any&& i) : tag(77), inner(std::move(i)) { hook_ctor(5, this); }
    Holder(const Holder& o) : tag(o.tag), inner(o.inner) { hook_src(5, &o); hook_ctor(5, this); } Holder(Holder&& o) noexcept : tag(o.tag), inner(std::move(o.inner)) { hook_src(5, &o); hook_ctor(5, this); }
    ~Holder() { hook_dtor(5, this); } };
W w_nested(int64_t k, int64_t x, int64_t how, int64_t* o1)
{
    int64_t rc = 0;
    {
        any a;
        try {
            { any child; build(child, k, x); a = Holder(std::move(child)); }
            if (how == 0) a = std::move(xtl::any_cast<Holder&>(a).inner);       // move assignment from a sub-object of the held value
            else a = xtl::any_cast<Holder&>(a).inner;                         // copy assignment from a sub-object of the held value
        } catch (...) { rc = 2; }
        observe(a, o1);
    }
    return rc;
}
