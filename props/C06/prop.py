"""C06 - any keeps, copies and returns exactly what was stored, with exact-type casts."""
ID = 'C06'
CLAIM = ('xtl::any with payloads int, Small (in place), Stm (small, throwing move => heap), Big (heap) carrying a lifetime ledger that also checks that every copy/move SOURCE is alive; symbolic fault schedule '
         'in every payload copy: copy/move construction, the three assignments, swap (all empty/in-place/heap combinations, same type, with itself, std::swap), reset/clear, construction from a value, '
         'copy independence, moved-from reuse; has_value/empty/type; pointer, const-pointer and reference any_cast to the stored, other and look-alike types; strong guarantee of throwing copy assignments; move/copy assignment from an any owned by the value the target currently holds')
BOUNDS = {'quick': '4 payload types + empty, 2 objects, one operation (two for the independence/moved-from cases) from every pair of start states, up to 8 throw decisions; payload values 0..29999',
          'thorough': 'same with a symbolic operation selector on a second back end'}
NOT_COVERED = ['payload types other than the four; over-aligned payloads; ANY_IMPL_FAST_TYPE_INFO_COMPARE / ANY_IMPL_ANY_CAST_MOVEABLE configurations', 'allocation failure']
ASSUMPTIONS = ['operator new/delete are modelled by malloc/free: double free, use after free and leaks of heap-stored payloads are cbmc checks in addition to the ledger',
               'type_info equality runs the inline libstdc++ code over the type names of the translated module']
INERT = ['_ZNSt9exceptionD2Ev', '_ZNSt8bad_castD2Ev']
OPS = ['copy_ctor', 'move_ctor', 'copy_assign', 'move_assign', 'assign_int', 'assign_small_lvalue', 'assign_small_rvalue', 'assign_stm_lvalue', 'assign_big_lvalue', 'swap', 'swap_self', 'swap_std',
       'reset', 'clear', 'ctor_value', 'copy_independent', 'moved_from_reuse']


def units(tier):
    return [Unit('any', 'wrappers.cpp', ['harness.c'], inert=INERT, tv=[('h_op', [])], tv_iters=30000),
            Unit('anynest', 'wrappers_nested.cpp', ['harness_nested.c'], inert=INERT, tv=[('h_nested', [])], tv_iters=20000)]


def obligations(tier):
    obs = []
    for i, name in enumerate(OPS):
        ob = Ob('op/' + name, 'any', 'h_op', defines=['OPFIX=%d' % i], unwind=4, mem_unwind=40, bound='all start states, all fault schedules', min_witnesses=1, timeout=900, flags=['--memory-leak-check']); ob.harness_unwind = 12; obs.append(ob)
    for k in (2, 4, 0, 3):
        for how in (0, 1):
            ob = Ob('nested_source/k%d_%s' % (k, 'move' if how == 0 else 'copy'), 'anynest', 'h_nested', defines=['KFIX=%d' % k, 'HOWFIX=%d' % how], unwind=4, mem_unwind=40, bound='child kind %d, all values' % k, min_witnesses=1, timeout=600, flags=['--memory-leak-check']); ob.harness_unwind = 12; obs.append(ob)
    if tier == 'thorough':
        ob = Ob('op/any@cadical', 'any', 'h_op', unwind=4, mem_unwind=40, backend='cadical', min_witnesses=2, timeout=3600, flags=['--memory-leak-check']); ob.harness_unwind = 12; obs.append(ob)
    return obs
