/* C06 harnesses: lifetime ledger (with liveness check of copy/move SOURCES: using a destroyed object is a failure), symbolic fault schedule. */
#include "harness.h"
#include "gen.h"
#define SLOTS 8
static const void* L_ptr[SLOTS]; static i32 L_cls[SLOTS]; static i32 L_val[SLOTS]; static int L_bad_val; static int L_bad_ctor, L_bad_dtor, L_bad_src, L_overflow, L_ctors, L_dtors;
static u8 g_sched[10]; static int g_k, g_threw;
void hook_ctor(i32 cls, const void* p) { L_ctors++; for (int i = 0; i < SLOTS; i++) if (L_ptr[i] == p) L_bad_ctor = 1; for (int i = 0; i < SLOTS; i++) if (L_ptr[i] == 0) { L_ptr[i] = p; L_cls[i] = cls; return; } L_overflow = 1; }
void hook_dtor(i32 cls, const void* p) { L_dtors++; for (int i = 0; i < SLOTS; i++) if (L_ptr[i] == p) { if (L_cls[i] != cls) L_bad_dtor = 1; L_ptr[i] = 0; return; } L_bad_dtor = 1; }
/* hook_val(p, v >= 0): the object at p now holds v (construction / assignment); hook_val(p, -1 - v): it is about to be destroyed holding v.
 * An object destroyed with a value it was never given has been relocated or overwritten behind the back of its constructors. */
void hook_val(const void* p, i32 v) { for (int i = 0; i < SLOTS; i++) if (L_ptr[i] == p) { if (v >= 0) L_val[i] = v; else if (L_val[i] != -1 - v) L_bad_val = 1; return; } }
void hook_src(i32 cls, const void* p) { for (int i = 0; i < SLOTS; i++) if (L_ptr[i] == p && L_cls[i] == cls) return; L_bad_src = 1; }
i32 hook_throw(i32 site) { (void)site; if (g_k < 10 && g_sched[g_k++]) { g_threw = 1; return 1; } return 0; }
static void ledger_reset(const u8* sched) { for (int i = 0; i < SLOTS; i++) { L_ptr[i] = 0; L_cls[i] = 0; } L_bad_ctor = L_bad_dtor = L_bad_src = L_bad_val = L_overflow = L_ctors = L_dtors = 0; g_k = g_threw = 0; for (int i = 0; i < 10; i++) g_sched[i] = sched[i]; }
#define LEDGER_OK() do { VASSERT(!L_bad_ctor, "no object is constructed over a live one"); VASSERT(!L_bad_dtor, "every destroyed object was alive and of that type (no double destruction)"); \
    VASSERT(!L_bad_src, "copies and moves read only live objects (no use after destruction)"); VASSERT(!L_overflow, "ledger capacity"); VASSERT(!L_bad_val, "an object is destroyed where, and with the value, it was constructed or assigned (no raw relocation of contained objects)"); \
    int live_ = 0; for (int i_ = 0; i_ < SLOTS; i_++) live_ += L_ptr[i_] != 0; VASSERT(live_ == 0 && L_ctors == L_dtors, "every contained object is destroyed exactly once"); } while (0)
#define OBS_OK(o, what) do { i64 k_ = (o)[0]; VASSERT(k_ <= 4, what ": type() is void or one of the stored types"); VASSERT((o)[1] == (k_ != 0) && (o)[2] == (k_ == 0), what ": has_value()/empty() describe the state"); \
    VASSERT((o)[4] == (k_ ? 1 << (k_ - 1) : 0) && (o)[5] == (o)[4], what ": pointer any_cast succeeds only for exactly the stored type (const or not)"); \
    VASSERT((o)[6] == (k_ ? 3 : 4), what ": reference any_cast throws bad_any_cast for every other type"); if (k_) VASSERT((o)[7] == (o)[3], what ": reference and pointer casts return the same stored object"); \
    VASSERT((o)[8] == 0, what ": casts to similar but different types fail"); } while (0)
#define STATE_IS(o, k, x) ((o)[0] == (k) && ((k) == 0 || (o)[3] == (x)))

void h_op(void) {
  IN(u8, k1); IN(i32, x1); IN(u8, k2); IN(i32, x2); IN(u8, op0); IN(i32, arg); IN_ARR(u8, sched, 10);
#ifdef OPFIX
  u8 op = OPFIX; (void)op0;
#else
  u8 op = op0;
#endif
  VASSUME(k1 < 5 && k2 < 5 && op < 17); for (int i = 0; i < 10; i++) VASSUME(sched[i] < 2);
  VASSUME(x1 >= 0 && x1 < 30000 && x2 >= 0 && x2 < 30000 && arg >= 0 && arg < 30000);
  /* building the start states copies/moves payloads too: those are not subject to injected faults (schedule starts at the operation) */
  u8 none[10] = {0}; ledger_reset(none);
  (void)0;
  i64 o1[9], o2[9], o3[9];
  /* the schedule is armed by the wrapper's first hook_throw inside the operation: build() of Small/Big rvalues never copies, Stm moves consult the hook -> handled by reserving the first two decisions */
  ledger_reset(sched); g_sched[0] = 0; g_sched[1] = 0;          /* decisions 0,1 belong to the construction of the two start states (Stm move) and never throw */
  i64 rc = w_op(k1, x1, k2, x2, op, arg, (u64*)o1, (u64*)o2, (u64*)o3);
  LEDGER_OK();
  VASSERT(rc != 2, "only the injected element exception can escape");
  OBS_OK(o1, "first any"); OBS_OK(o2, "second any");
  int rk = op == 4 ? 1 : (op == 5 || op == 6) ? 2 : op == 7 ? 3 : (op == 8 || op == 14) ? 4 : -1;
  if (!g_threw) {
    VASSERT(rc == 0, "nothing throws when no element operation throws");
    switch (op) {
      case 0: VASSERT(STATE_IS(o3, k1, x1) && STATE_IS(o1, k1, x1), "copy construction: equal value, source unchanged"); break;
      case 1: VASSERT(STATE_IS(o3, k1, x1), "move construction transfers the value"); break;
      case 2: VASSERT(STATE_IS(o1, k2, x2) && STATE_IS(o2, k2, x2), "copy assignment: target holds the source's value, source unchanged"); break;
      case 3: VASSERT(STATE_IS(o1, k2, x2), "move assignment transfers the value"); break;
      case 4: case 5: case 6: case 7: case 8: VASSERT(STATE_IS(o1, rk, arg), "assignment from a value stores that value with its exact type"); VASSERT(STATE_IS(o2, k2, x2), "other object untouched"); break;
      case 9: case 11: VASSERT(STATE_IS(o1, k2, x2) && STATE_IS(o2, k1, x1), "swap exchanges the contents (all combinations of empty / in-place / heap)"); break;
      case 10: VASSERT(STATE_IS(o1, k1, x1), "swap with itself keeps the value"); break;
      case 12: case 13: VASSERT(STATE_IS(o1, 0, 0), "reset()/clear() leave an empty any"); break;
      case 14: VASSERT(STATE_IS(o3, 4, arg), "construction from a value"); break;
      case 15: VASSERT(STATE_IS(o3, k2, x2) && STATE_IS(o1, k1, x1) && STATE_IS(o2, k2, x2), "a copy holds the last value assigned and is independent of its sources"); break;
      default: VASSERT(STATE_IS(o3, k1, x1) && STATE_IS(o1, 1, arg), "a moved-from any stays assignable; the value moved to the new object"); break;
    }
  } else {
    /* copying the contained value threw: copy assignment and assignment from a value keep the previous value (strong guarantee) */
    if (op == 2 || op == 5 || op == 7 || op == 8 || op == 4) VASSERT(rc == 1 && STATE_IS(o1, k1, x1), "if copying the contained value throws, the target keeps its previous value");
    if (op == 2) VASSERT(STATE_IS(o2, k2, x2), "the source of a failed copy assignment is unchanged");
    if (op == 0) VASSERT(rc == 1 && o3[0] == -1 && STATE_IS(o1, k1, x1), "a throwing copy constructs nothing and leaves the source unchanged");
  }
  WITNESS("copy_throws_target_kept", g_threw && op == 2 && k1 != 0); WITNESS("swap_stack_heap", op == 9 && k1 == 2 && k2 == 4); WITNESS("swap_same_type_in_place", op == 9 && k1 == 2 && k2 == 2);
  WITNESS("self_swap_in_place", op == 10 && k1 == 2); WITNESS("self_swap_heap", op == 10 && k1 == 4);
  HARNESS_END();
}
