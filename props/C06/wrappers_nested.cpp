// separate translation unit: Holder contains an any, so any -> vtable -> Holder -> any is a recursion through function pointers; kept out of the
// module of the one-step obligations, whose indirect calls would otherwise be unwound through it
#include "wrappers_base.inc"
// ---- assignment from an any that lives INSIDE the value currently held by the target (a node replaced by its own child) ----
// (tag first: the ledger identifies objects by address, so the contained any must not share the address of its enclosing Holder)
struct Holder { long tag; any inner; explicit Holder(any&& i) : tag(77), inner(std::move(i)) { hook_ctor(5, this); }
    Holder(const Holder& o) : tag(o.tag), inner(o.inner) { hook_src(5, &o); hook_ctor(5, this); } Holder(Holder&& o) noexcept : tag(o.tag), inner(std::move(o.inner)) { hook_src(5, &o); hook_ctor(5, this); }
    ~Holder() { hook_dtor(5, this); } };
W w_nested(int64_t k, int64_t x, int64_t how, int64_t* o1)
{
    int64_t rc = 0;
    {
        any a;
        try {
            { any child; build(child, k, x); a = Holder(std::move(child)); }
            if (how == 0) a = std::move(xtl::any_cast<Holder&>(a).inner);       // move assignment from a sub-object of the held value
            else a = xtl::any_cast<Holder&>(a).inner;                         // copy assignment from a sub-object of the held value
        } catch (...) { rc = 2; }
        observe(a, o1);
    }
    return rc;
}
