#include "harness.c"
/* the right-hand side of an assignment is owned by the value the target holds: it must be read before that value is destroyed */
void h_nested(void) {
  IN(u8, k); IN(i32, x); IN(u8, how); VASSUME(k < 5 && how < 2 && x >= 0 && x < 30000);
#ifdef KFIX
  k = KFIX; how = HOWFIX;      /* one obligation per (child kind, assignment form) */
#endif
  u8 none[10] = {0}; ledger_reset(none);
  i64 o1[9];
  i64 rc = w_nested(k, x, how, (u64*)o1);
  LEDGER_OK();
  VASSERT(rc == 0, "nothing throws");
  OBS_OK(o1, "target");
  VASSERT(STATE_IS(o1, k, x), "assignment from an any owned by the target's current value: the target holds that any's value afterwards");
  WITNESS("nonempty_child", k != 0 || how < 2);
  HARNESS_END();
}
