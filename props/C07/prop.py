"""C07 - closures alias lvalues and own rvalues for every value category (run-time consequences)."""
ID = 'C07'
CLAIM = ('closure / const_closure / closure_pointer / const_closure_pointer, xclosure_wrapper copy / assignment / swap / operator&, optional(x, flag) and its rvalue accessors, xcomplex over reference closures, '
         'xproxy_wrapper and forward_sequence, for sources {T&, const T&, T&&, prvalue} and payloads {int, copy/move-counting class}: pointer identity with the original, write-through, zero copies for lvalues; '
         'value survives the dead temporary and copies are independent for rvalues; the static type mappings themselves are pinned by static_assert probes (compiler verdict)')
BOUNDS = {'quick': 'the enumerated category x payload x wrapper table; payload values in (-100000, 100000)', 'thorough': 'same, second SAT back end'}
NOT_COVERED = ['move-only payloads; xmasked_value closures; bitset element references (their & and write-through are decided in C03)',
               'use-after-scope of a wrapper that wrongly references a dead temporary shows as a wrong value / cbmc dead-object failure only when the frame is gone: temporaries are built in noinline callees for that purpose']
ASSUMPTIONS = []
INERT = []
HS = ['lvalue', 'assign', 'swap', 'owned', 'optional']


def probes(tier):
    src = r'''#include <type_traits>
#include <xtl/xclosure.hpp>
#include <xtl/xtype_traits.hpp>
using namespace xtl;
#define SAME(...) static_assert(std::is_same<__VA_ARGS__>::value, "closure type mapping")
SAME(closure_type_t<int>, int); SAME(closure_type_t<int&>, int&); SAME(closure_type_t<const int&>, const int&); SAME(closure_type_t<int&&>, int); SAME(closure_type_t<const int&&>, const int); SAME(closure_type_t<const int>, const int);
SAME(const_closure_type_t<int>, int); SAME(const_closure_type_t<int&>, const int&); SAME(const_closure_type_t<const int&>, const int&); SAME(const_closure_type_t<int&&>, int); SAME(const_closure_type_t<const int&&>, int);
SAME(ptr_closure_type_t<int>, int); SAME(ptr_closure_type_t<int&>, int*); SAME(ptr_closure_type_t<const int&>, const int*); SAME(ptr_closure_type_t<int&&>, int); SAME(ptr_closure_type_t<const int&&>, const int);
SAME(const_ptr_closure_type_t<int&>, const int*); SAME(const_ptr_closure_type_t<int&&>, const int);
SAME(apply_cv_t<const int&, double>, const double&); SAME(apply_cv_t<int&, double>, double&); SAME(apply_cv_t<volatile int, double>, volatile double); SAME(apply_cv_t<const volatile int&, double>, const volatile double&);
int main() { return 0; }
'''
    return [('type_mappings', src, 'closure_type_t / const_closure_type_t / ptr_closure_type_t / apply_cv_t map every cv-reference combination as documented')]


def units(tier):
    tv = [('h_%s_%s' % (n, h), []) for n in ('i', 'c') for h in HS] + [('h_complex_ref', []), ('h_proxy', []), ('h_forward_sequence', [])]
    return [Unit('closure', 'wrappers.cpp', ['harness.c'], tv=tv, tv_iters=5000, ir2c_flags=['--lifetime-heap'])]


def obligations(tier):
    obs = []
    for n in ('i', 'c'):
        for h in HS: obs.append(Ob('%s/%s' % ('int' if n == 'i' else 'counted', h), 'closure', 'h_%s_%s' % (n, h), unwind=14, bound='all payload values'))
    for h in ('complex_ref', 'proxy', 'forward_sequence'): obs.append(Ob(h, 'closure', 'h_' + h, unwind=14, bound='all payload values'))
    if tier == 'thorough': obs += [Ob(o.name + '@cadical', o.unit, o.fn, unwind=14, backend='cadical') for o in list(obs)]
    return obs
