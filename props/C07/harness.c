/* C07 harnesses: aliasing (pointer identity, write-through, zero copies) for lvalue sources, ownership (value survives the source, copies independent) for rvalue sources. */
#include "harness.h"
#include "gen.h"
static int g_copy[4];
void hook_copy(i32 kind) { if (kind >= 0 && kind < 4) g_copy[kind]++; }
static void reset(void) { for (int i = 0; i < 4; i++) g_copy[i] = 0; }
#define SMALL(x) ((x) > -100000 && (x) < 100000)
#define ALL1(o, n) do { for (int i_ = 0; i_ < (n); i_++) VASSERT((o)[i_] == 1 || i_ == skip_, "a closure / closure pointer / const closure built from an lvalue designates the original object (also after copying the wrapper and through &)"); } while (0)
#define BOTH(NAME) \
void h_##NAME##_lvalue(void) { IN(i32, x0); IN(i32, nv); VASSUME(SMALL(x0) && SMALL(nv)); i64 out[11]; for (int i = 0; i < 11; i++) out[i] = -7; reset(); \
  w_##NAME##_lvalue(x0, nv, (u64*)out); int skip_ = 3; ALL1(out, 11); VASSERT(out[3] == nv, "a write through the wrapper changes the original object"); \
  VASSERT(g_copy[0] + g_copy[1] + g_copy[2] + g_copy[3] == 0, "wrapping an lvalue copies nothing"); HARNESS_END(); } \
void h_##NAME##_assign(void) { IN(i32, x0); IN(i32, y0); IN(i32, nv); VASSUME(SMALL(x0) && SMALL(y0) && SMALL(nv)); i64 out[6]; for (int i = 0; i < 6; i++) out[i] = -7; reset(); \
  w_##NAME##_assign(x0, y0, nv, (u64*)out); \
  VASSERT(out[0] == y0 && out[1] == y0 && out[2] == 1 && out[3] == 1, "assigning one reference closure to another changes the referent and never rebinds"); \
  VASSERT(out[4] == nv && out[5] == 1, "assigning a value through a reference closure changes the referent"); \
  VASSERT(g_copy[0] == 0 && g_copy[1] == 0, "assignment through a reference closure constructs no new object"); HARNESS_END(); } \
void h_##NAME##_swap(void) { IN(i32, x0); IN(i32, y0); VASSUME(SMALL(x0) && SMALL(y0)); i64 out[6]; for (int i = 0; i < 6; i++) out[i] = -7; reset(); \
  w_##NAME##_swap(x0, y0, (u64*)out); \
  VASSERT(out[0] == y0 && out[1] == x0 && out[2] == 1 && out[3] == 1, "swap exchanges the referents' values, the wrappers keep designating their objects"); \
  VASSERT(out[4] == x0 && out[5] == y0, "swapping twice restores the values"); HARNESS_END(); } \
void h_##NAME##_owned(void) { IN(i32, x0); IN(i32, nv); VASSUME(SMALL(x0) && SMALL(nv)); i64 out[9]; for (int i = 0; i < 9; i++) out[i] = -7; reset(); \
  w_##NAME##_owned(x0, nv, (u64*)out); \
  VASSERT(out[0] == x0 && out[1] == x0 + 1 && out[2] == x0 + 2 && out[3] == x0 + 3, "a wrapper built from a temporary owns the value: it stays valid after the temporary is gone"); \
  VASSERT(out[4] == nv && out[5] == nv && out[6] == nv + 1 && out[7] == 1 && out[8] == 1, "owning wrappers are independent copies; & designates the owned object"); \
  VASSERT(g_copy[2] == 0 && g_copy[3] == 0, "ownership is established by construction, not assignment"); HARNESS_END(); } \
void h_##NAME##_optional(void) { IN(i32, x0); IN(u8, f0); IN(i32, nv); VASSUME(SMALL(x0) && SMALL(nv) && f0 < 2); i64 out[10]; for (int i = 0; i < 10; i++) out[i] = -7; reset(); \
  w_##NAME##_optional(x0, f0, nv, (u64*)out); \
  VASSERT(out[0] == 1 && out[1] == 1 && out[4] == 1 && out[7] == 1, "optional(x, flag) from lvalues designates both originals (also through the rvalue accessor and for a const source)"); \
  VASSERT(out[2] == nv && out[3] == !f0, "writes through optional(x, flag) reach x and flag"); \
  VASSERT(out[5] == x0 + 5 && out[6] == 1, "optional(T(..), true) from temporaries owns value and flag"); \
  VASSERT(out[8] == nv && out[9] == nv, "assigning a temporary reference-closure optional to an owning one copies the referent and leaves it intact (the referent is not moved from)"); HARNESS_END(); }
BOTH(i)
BOTH(c)
void h_complex_ref(void) {
  IN(i32, r0); IN(i32, i0); IN(i32, nv); VASSUME(SMALL(r0) && SMALL(i0) && SMALL(nv)); double d[2] = {0, 0}; i64 out[5]; for (int i = 0; i < 5; i++) out[i] = -7;
  w_complex_ref((double)r0, (double)i0, (double)nv, d, (u64*)out);
  VASSERT(out[0] == 1 && out[1] == 1 && out[2] == 1 && out[3] == 1 && out[4] == 1, "xcomplex over reference closures designates the original parts, also through rvalue accessors and in mixed closures");
  VASSERT(d[0] == (double)nv && d[1] == (double)r0, "write-through for reference closures; value closures return their value");
  HARNESS_END();
}
void h_proxy(void) {
  IN(i32, x0); IN(i32, nv); VASSUME(SMALL(x0) && SMALL(nv)); i64 out[4]; for (int i = 0; i < 4; i++) out[i] = -7;
  w_proxy(x0, nv, (u64*)out);
  VASSERT(out[0] == nv && out[1] == nv + 1 && out[2] == 1 && out[3] == 1, "a wrapped proxy, and the pointer-like object & yields, keep designating the proxy's referent");
  HARNESS_END();
}
void h_forward_sequence(void) {
  i64 out[4]; for (int i = 0; i < 4; i++) out[i] = -7;
  w_forward_sequence((u64*)out);
  VASSERT(out[0] == 1 && out[1] == 1 && out[3] == 1, "forward_sequence returns the argument itself when the types match (lvalue, const lvalue, rvalue)");
  VASSERT(out[2] == 321, "forward_sequence converts element-wise otherwise");
  HARNESS_END();
}
