// C07 wrappers: observable consequences of the closure type mappings.  Pointer identities are reported as 0/1, values through out[].
// Counted counts its copies/moves through hook_copy (harness side), so "aliases without copying" and "owns an independent copy" are decided by the solver.
#include <cstdint>
#include <array>
#include <utility>
#include <xtl/xclosure.hpp>
#include <xtl/xoptional.hpp>
#include <xtl/xcomplex.hpp>
#include <xtl/xproxy_wrapper.hpp>
#include <xtl/xsequence.hpp>
extern "C" void hook_copy(int32_t kind);     // 0 copy ctor, 1 move ctor, 2 copy assignment, 3 move assignment
struct Counted
{
    int v;
    explicit Counted(int x) : v(x) {}
    Counted(const Counted& o) : v(o.v) { hook_copy(0); }
    Counted(Counted&& o) noexcept : v(o.v) { o.v = -12345; hook_copy(1); }
    Counted& operator=(const Counted& o) { v = o.v; hook_copy(2); return *this; }
    Counted& operator=(Counted&& o) noexcept { v = o.v; o.v = -12345; hook_copy(3); return *this; }
};
inline bool operator==(const Counted& a, const Counted& b) { return a.v == b.v; }
#define W extern "C" __attribute__((noinline)) void
// temporaries are built in a callee whose frame is gone when the wrapper is used
template <class T> __attribute__((noinline)) static auto own_closure(int x) { return xtl::closure(T(x)); }
template <class T> __attribute__((noinline)) static auto own_closure_moved(int x) { T t(x); return xtl::closure(std::move(t)); }
template <class T> __attribute__((noinline)) static auto own_const_closure(int x) { return xtl::const_closure(T(x)); }
template <class T> __attribute__((noinline)) static auto own_pointer(int x) { return xtl::closure_pointer(T(x)); }
template <class T> __attribute__((noinline)) static auto own_optional(int x, bool f) { return xtl::optional(T(x), bool(f)); }
static inline int gv(const Counted& c) { return c.v; } static inline int gv(int c) { return c; }
static inline void sv(Counted& c, int x) { c.v = x; } static inline void sv(int& c, int x) { c = x; }
#define CASES(T, N) \
W w_##N##_lvalue(int32_t x0, int32_t nv, int64_t* out) { T x(x0); const T cx(x0 + 1); \
    auto w = xtl::closure(x); auto cw = xtl::closure(cx); auto kw = xtl::const_closure(x); \
    out[0] = (&w.get() == &x); out[1] = (&cw.get() == &cx); out[2] = (&kw.get() == &x); \
    sv(w.get(), nv); out[3] = gv(x);                                   /* write through the wrapper reaches x */ \
    auto w2 = w; out[4] = (&w2.get() == &x);                           /* a copy designates the same referent */ \
    auto pw = &w; out[5] = (pw == &x);                                 /* & yields a pointer to the referent */ \
    T& r = w; out[6] = (&r == &x); const T& cr = static_cast<const decltype(w)&>(w); out[7] = (&cr == &x); \
    auto p = xtl::closure_pointer(x); out[8] = (&*p == &x); out[9] = (p.operator->() == &x); auto cp = xtl::const_closure_pointer(x); out[10] = (&*cp == &x); } \
W w_##N##_assign(int32_t x0, int32_t y0, int32_t nv, int64_t* out) { T x(x0), y(y0); \
    auto w = xtl::closure(x); auto u = xtl::closure(y); \
    w = u; out[0] = gv(x); out[1] = gv(y); out[2] = (&w.get() == &x); out[3] = (&u.get() == &y);      /* assignment writes the referent, never rebinds */ \
    w = T(nv); out[4] = gv(x); out[5] = (&w.get() == &x); } \
W w_##N##_swap(int32_t x0, int32_t y0, int64_t* out) { T x(x0), y(y0); auto w = xtl::closure(x); auto u = xtl::closure(y); \
    using std::swap; swap(w, u); out[0] = gv(x); out[1] = gv(y); out[2] = (&w.get() == &x); out[3] = (&u.get() == &y); \
    w.swap(u); out[4] = gv(x); out[5] = gv(y); } \
W w_##N##_owned(int32_t x0, int32_t nv, int64_t* out) { \
    auto w = own_closure<T>(x0); out[0] = gv(w.get());                 /* built from a prvalue in a dead frame: owns the value */ \
    auto m = own_closure_moved<T>(x0 + 1); out[1] = gv(m.get()); \
    auto k = own_const_closure<T>(x0 + 2); out[2] = gv(k.get()); \
    auto p = own_pointer<T>(x0 + 3); out[3] = gv(*p); \
    sv(w.get(), nv); out[4] = gv(w.get()); auto w2 = w; sv(w2.get(), nv + 1); out[5] = gv(w.get()); out[6] = gv(w2.get());   /* copies of owning wrappers are independent */ \
    out[7] = (&w.get() != &w2.get()); auto pw = &w; out[8] = (pw == &w.get()); } \
W w_##N##_optional(int32_t x0, uint8_t f0, int32_t nv, int64_t* out) { T x(x0); bool f = f0 != 0; \
    auto o = xtl::optional(x, f); out[0] = (&o.value() == &x); out[1] = (&o.has_value() == &f); \
    sv(o.value(), nv); o.has_value() = !f; out[2] = gv(x); out[3] = f; \
    auto&& rv = std::move(o).value(); out[4] = (&rv == &x);            /* rvalue accessor of a reference closure still designates the referent */ \
    auto own = own_optional<T>(x0 + 5, true); out[5] = gv(own.value()); out[6] = own.has_value(); \
    const T cx(x0 + 7); auto co = xtl::optional(cx, f); out[7] = (&co.value() == &cx); \
    xtl::xoptional<T> s(T(0), false); s = xtl::optional(x, f); out[8] = gv(x); out[9] = gv(s.value());   /* assigning an rvalue reference-closure proxy to an owning optional copies from the referent, it must not move from it */ }
CASES(int, i)
CASES(Counted, c)
// xcomplex over reference closures, proxy wrapper, forward_sequence
W w_complex_ref(double re0, double im0, double nv, double* dout, int64_t* out)
{
    double re = re0, im = im0; xtl::xcomplex<double&, double&> z(re, im);
    out[0] = (&z.real() == &re); out[1] = (&z.imag() == &im); z.real() = nv; dout[0] = re;
    auto&& rr = std::move(z).real(); out[2] = (&rr == &re); auto&& ri = std::move(z).imag(); out[3] = (&ri == &im);
    xtl::xcomplex<double, double> v(re0, im0); double vr = std::move(v).real(); dout[1] = vr;
    xtl::xcomplex<double, double&> mix(re0, im); auto&& mi = std::move(mix).imag(); out[4] = (&mi == &im);
}
struct Proxy { int* target; Proxy(int* t) : target(t) {} Proxy& operator=(int v) { *target = v; return *this; } operator int() const { return *target; } };
W w_proxy(int32_t x0, int32_t nv, int64_t* out)
{
    int x = x0; auto pw = xtl::proxy_wrapper(Proxy(&x)); static_cast<Proxy&>(pw) = nv; out[0] = x; auto pp = &pw; Proxy& pr = *pp; pr = nv + 1; out[1] = x; out[2] = (pp->target == &x);
    int y = x0; auto iw = xtl::proxy_wrapper(y); out[3] = (&iw.get() == &y);   /* non-class lvalue: closure wrapper over the reference */
}
W w_forward_sequence(int64_t* out)
{
    std::array<int, 3> a = {{1, 2, 3}}; const std::array<int, 3> ca = {{4, 5, 6}};
    auto&& r1 = xtl::forward_sequence<std::array<int, 3>, std::array<int, 3>&>(a); out[0] = (&r1 == &a);
    auto&& r2 = xtl::forward_sequence<std::array<int, 3>, const std::array<int, 3>&>(ca); out[1] = (&r2 == &ca);
    std::array<long, 3> conv = xtl::forward_sequence<std::array<long, 3>, std::array<int, 3>&>(a); out[2] = conv[0] + 10 * conv[1] + 100 * conv[2];
    auto&& r3 = xtl::forward_sequence<std::array<int, 3>, std::array<int, 3>>(std::move(a)); out[3] = (&r3 == &a);
}
