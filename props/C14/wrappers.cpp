// C14 wrappers: byte hashes and std::hash of fixed strings (three storage layouts).
#include <cstdint>
#include <cstddef>
#include <new>
#include <xtl/xhash.hpp>
#include <xtl/xbasic_fixed_string.hpp>
#define W extern "C" __attribute__((noinline))
static_assert(sizeof(std::size_t) == 8, "64-bit size_t: hash_bytes is MurmurHash64A");
W uint32_t w_x86(const uint8_t* p, uint64_t len, uint32_t seed) { return xtl::murmur2_x86(p, len, seed); }
W uint64_t w_x64(const uint8_t* p, uint64_t len, uint64_t seed) { return xtl::murmur2_x64(p, len, seed); }
W uint64_t w_hb(const uint8_t* p, uint64_t len, uint64_t seed) { return xtl::hash_bytes(p, len, seed); }

typedef xtl::xbasic_fixed_string<char, 5, xtl::buffer | xtl::store_size> FSP;     // length packed into the last element
typedef xtl::xbasic_fixed_string<char, 5, xtl::buffer> FSL;                       // strlen layout
typedef xtl::xbasic_fixed_string<char, 256, xtl::buffer | xtl::store_size> FSF;   // separate length field
static_assert(sizeof(FSP) == 6 && sizeof(FSL) == 6 && sizeof(FSF) == 257 + 7 + 8, "layouts");
// assign(ptr, n) into caller memory holding arbitrary (stale) bytes, then hash
#define FS(T, name) \
  W void w_##name##_assign(uint8_t* obj, const uint8_t* s, uint64_t n) { reinterpret_cast<T*>(obj)->assign(reinterpret_cast<const char*>(s), n); } \
  W uint64_t w_##name##_size(const uint8_t* obj) { return reinterpret_cast<const T*>(obj)->size(); } \
  W uint64_t w_##name##_hash(const uint8_t* obj) { return std::hash<T>()(*reinterpret_cast<const T*>(obj)); } \
  W int64_t w_##name##_dataoff(const uint8_t* obj) { return reinterpret_cast<const uint8_t*>(reinterpret_cast<const T*>(obj)->data()) - obj; }
FS(FSP, fsp) FS(FSL, fsl) FS(FSF, fsf)
