/* C14 harnesses.  LEN and OFF are concrete per obligation (-DLEN= -DOFF=); bytes and seed are symbolic.
 * The buffer is an exact-size heap block malloc(OFF+LEN) and the key starts at base+OFF, so any read outside
 * [key, key+LEN) is a cbmc bounds failure, and the hash cannot depend on neighbouring memory (there is none). */
#include "harness.h"
#include "gen.h"
#include <stdlib.h>
#ifndef LEN
#define LEN 7
#endif
#ifndef OFF
#define OFF 0
#endif
#ifndef OFF2
#define OFF2 3
#endif
/* reference MurmurHash2 (Appleby, MurmurHash2.cpp), byte-wise little-endian loads: independent of alignment by construction */
static u32 ref_murmur2(const u8* d, u32 len, u32 seed) {
  const u32 m = 0x5bd1e995; u32 h = seed ^ len; u32 n = len;
  while (n >= 4) { u32 k = d[0] | (u32)d[1] << 8 | (u32)d[2] << 16 | (u32)d[3] << 24; k = REF_MUL32(k, m); k ^= k >> 24; k = REF_MUL32(k, m); h = REF_MUL32(h, m); h ^= k; d += 4; n -= 4; }
  switch (n) { case 3: h ^= (u32)d[2] << 16; case 2: h ^= (u32)d[1] << 8; case 1: h ^= d[0]; h = REF_MUL32(h, m); }
  h ^= h >> 13; h = REF_MUL32(h, m); h ^= h >> 15; return h;
}
/* reference MurmurHash64A */
static u64 ref_murmur64a(const u8* d, u64 len, u64 seed) {
  const u64 m = 0xc6a4a7935bd1e995ULL; const int r = 47; u64 h = seed ^ REF_MUL64(len, m); u64 nb = len / 8;
  for (u64 i = 0; i < nb; i++) { u64 k = 0; for (int j = 7; j >= 0; j--) k = (k << 8) | d[8 * i + j]; k = REF_MUL64(k, m); k ^= k >> r; k = REF_MUL64(k, m); h ^= k; h = REF_MUL64(h, m); }
  const u8* t = d + 8 * nb;
  switch (len & 7) { case 7: h ^= (u64)t[6] << 48; case 6: h ^= (u64)t[5] << 40; case 5: h ^= (u64)t[4] << 32; case 4: h ^= (u64)t[3] << 24;
                     case 3: h ^= (u64)t[2] << 16; case 2: h ^= (u64)t[1] << 8; case 1: h ^= (u64)t[0]; h = REF_MUL64(h, m); }
  h ^= h >> r; h = REF_MUL64(h, m); h ^= h >> r; return h;
}
static u8* mkbuf(u64 off, u64 len, const u8* bytes) {
  u8* base = (u8*)malloc(off + len + (off + len == 0));
#ifdef __CPROVER__
  __CPROVER_assume(base != 0);
#endif
  for (u64 i = 0; i < off; i++) base[i] = 0xA5;
  for (u64 i = 0; i < len; i++) base[off + i] = bytes[i];
  return base + off;
}
void h_x86(void) {
  IN_ARR(u8, bytes, LEN + 1); IN(u32, seed);
  u8* key = mkbuf(OFF, LEN, bytes);
  MUL_RECORD(); u32 r = w_x86(key, LEN, seed); MUL_REPLAY();
  VASSERT(r == ref_murmur2(bytes, LEN, seed), "murmur2_x86 equals reference MurmurHash2");
  WITNESS("high_bytes", LEN > 0 && bytes[LEN > 0 ? LEN - 1 : 0] >= 0x80);
  HARNESS_END();
}
void h_x64(void) {
  IN_ARR(u8, bytes, LEN + 1); IN(u64, seed);
  u8* key = mkbuf(OFF, LEN, bytes);
  MUL_RECORD(); u64 r = w_x64(key, LEN, seed); MUL_REPLAY();
  VASSERT(r == ref_murmur64a(bytes, LEN, seed), "murmur2_x64 equals reference MurmurHash64A");
  MUL_REPLAY();
  VASSERT(w_hb(key, LEN, seed) == r, "hash_bytes is murmur2_x64 on this platform");
  WITNESS("high_bytes", LEN > 0 && bytes[LEN > 0 ? LEN - 1 : 0] >= 0x80);
  HARNESS_END();
}
/* equal contents at two different addresses/alignments, different surrounding bytes -> equal hashes */
void h_addr(void) {
  IN_ARR(u8, bytes, LEN + 1); IN(u64, seed); IN(u8, pad);
  u8* k1 = mkbuf(OFF, LEN, bytes);
  u8* b2 = (u8*)malloc(OFF2 + LEN + 5);
#ifdef __CPROVER__
  __CPROVER_assume(b2 != 0);
#endif
  for (u64 i = 0; i < OFF2 + LEN + 5; i++) b2[i] = pad;          /* neighbours differ from the first buffer's */
  for (u64 i = 0; i < LEN; i++) b2[OFF2 + i] = bytes[i];
  MUL_RECORD(); u32 a1 = w_x86(k1, LEN, (u32)seed); MUL_REPLAY(); u32 a2 = w_x86(b2 + OFF2, LEN, (u32)seed);
  VASSERT(a1 == a2, "murmur2_x86 independent of address and neighbouring memory");
  MUL_RECORD(); u64 c1 = w_x64(k1, LEN, seed); MUL_REPLAY(); u64 c2 = w_x64(b2 + OFF2, LEN, seed);
  VASSERT(c1 == c2, "murmur2_x64 independent of address and neighbouring memory");
  HARNESS_END();
}
/* fixed strings: same (size, chars) in three layouts, arbitrary stale bytes in the objects -> same hash = MurmurHash64A(chars, size, 0xc70f6907) */
#define FSP_SZ 6
#define FSL_SZ 6
#define FSF_SZ 272
void h_fs(void) {
  IN_ARR(u8, chars, LEN + 1); IN_ARR(u8, stale1, FSP_SZ); IN_ARR(u8, stale2, FSL_SZ); IN_ARR(u8, stale3, 24); IN_ARR(u8, stale4, FSP_SZ);
  for (int i = 0; i < LEN; i++) VASSUME(chars[i] != 0);          /* the strlen layout cannot hold embedded NULs */
  u8* src = mkbuf(0, LEN, chars);
#if LEN < 5   /* known finding KF-C01-1 (packed layout reports size N+1 at length N) is the subject of C01, excluded here */
  u8* p = (u8*)malloc(FSP_SZ); u8* p2 = (u8*)malloc(FSP_SZ); u8* l = (u8*)malloc(FSL_SZ);
#ifdef __CPROVER__
  __CPROVER_assume(p != 0 && l != 0 && p2 != 0);
#endif
  for (int i = 0; i < FSP_SZ; i++) { p[i] = stale1[i]; l[i] = stale2[i]; p2[i] = stale4[i]; }
  w_fsp_assign(p, src, LEN); w_fsl_assign(l, src, LEN); w_fsp_assign(p2, src, LEN);
  VASSERT(w_fsp_size(p) == LEN && w_fsl_size(l) == LEN, "size after assign");
  MUL_RECORD(); u64 hp = w_fsp_hash(p); MUL_REPLAY(); u64 e = ref_murmur64a(chars, LEN, 0xc70f6907ULL);
  VASSERT(hp == e, "hash of packed-layout string is MurmurHash64A of its characters");
  MUL_REPLAY(); VASSERT(w_fsl_hash(l) == e, "hash of strlen-layout string is MurmurHash64A of its characters");
  MUL_REPLAY(); VASSERT(w_fsp_hash(p2) == hp, "stale bytes after the terminator do not influence the hash");
  WITNESS("stale_nonzero_after_terminator", LEN < 4 && p[LEN + 1] != 0 && p2[LEN + 1] != p[LEN + 1]);
#endif
  u8* f = (u8*)malloc(FSF_SZ);
#ifdef __CPROVER__
  __CPROVER_assume(f != 0);
#endif
  for (int i = 0; i < 24; i++) { f[i] = stale3[i]; f[FSF_SZ - 24 + i] = stale3[i]; }
  w_fsf_assign(f, src, LEN);
#if LEN >= 5
  MUL_RECORD(); u64 hf = w_fsf_hash(f); MUL_REPLAY(); u64 e = ref_murmur64a(chars, LEN, 0xc70f6907ULL);
  VASSERT(hf == e, "hash of size-field-layout string is MurmurHash64A of its characters (first use)");
#endif
  MUL_REPLAY();
  VASSERT(w_fsf_size(f) == LEN && w_fsf_hash(f) == e, "hash of size-field-layout string is MurmurHash64A of its characters");
  HARNESS_END();
}
