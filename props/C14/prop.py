"""C14 - byte hashes are pure functions of the bytes and equal reference MurmurHash2 / MurmurHash64A."""
ID = 'C14'
CLAIM = ('murmur2_x86, murmur2_x64, hash_bytes on exact-size heap keys: one solver query per concrete (length, alignment offset) with ALL bytes and the seed '
         'symbolic, lengths 0..19 (x86) / 0..39 (x64), offsets {0,1,3,7} (thorough 0..7), against byte-wise reference MurmurHash2/64A; address/neighbour '
         'independence as a two-buffer query; std::hash of fixed strings in the three layouts with arbitrary stale object bytes')
BOUNDS = {'quick': 'x86: len 0..19; x64/hash_bytes: len 0..39; offsets {0,1,3,7}; fixed strings: lengths 0..5 (N=5 layouts) and 0..5,9,17 (N=256); bytes and seeds unconstrained',
          'thorough': 'x86: len 0..35; x64: len 0..71; offsets 0..7; otherwise as quick'}
NOT_COVERED = ['keys longer than the stated lengths (the loop body is the same for every block; not a verdict)', 'the dummy murmur_hash<N> for unusual size_t widths', '32-bit platforms',
               'fixed strings of character types other than char (std::hash hashes size() bytes, not size()*sizeof(CT))']
ASSUMPTIONS = ['little-endian x86-64; unaligned 32-bit loads are what clang emits for *(uint32_t*)data (align 4 in the IR is not asserted)']


def units(tier):
    return [Unit('hash', 'wrappers.cpp', ['harness.c'], tv=[('h_x86', ['LEN=11', 'OFF=1']), ('h_x64', ['LEN=23', 'OFF=3']), ('h_fs', ['LEN=3'])], tv_iters=5000, ir2c_flags=['--hook-arith', 'all'])]


def obligations(tier):
    obs = []
    offs = [0, 1, 3, 7] if tier == 'quick' else list(range(8))
    m86, m64 = (19, 39) if tier == 'quick' else (35, 71)
    for L in range(m86 + 1):
        for o in offs:
            obs.append(Ob('x86/len%02d/off%d' % (L, o), 'hash', 'h_x86', defines=['LEN=%d' % L, 'OFF=%d' % o], unwind=max(L, 8) + 3, backend='cadical',
                          bound='len=%d off=%d, bytes+seed symbolic' % (L, o), min_witnesses=1, mem_unwind=max(L, 8) + 3))
    for L in range(m64 + 1):
        for o in offs:
            obs.append(Ob('x64/len%02d/off%d' % (L, o), 'hash', 'h_x64', defines=['LEN=%d' % L, 'OFF=%d' % o], unwind=max(L, 8) + 3, backend='cadical',
                          bound='len=%d off=%d, bytes+seed symbolic' % (L, o), min_witnesses=1, mem_unwind=max(L, 8) + 3))
    for L in (0, 1, 3, 4, 7, 8, 9, 15, 16, 21):
        obs.append(Ob('addr/len%02d' % L, 'hash', 'h_addr', defines=['LEN=%d' % L, 'OFF=%d' % (L % 8), 'OFF2=%d' % ((L + 3) % 8)], unwind=L + 16, backend='cadical',
                      bound='len=%d, two buffers' % L, mem_unwind=L + 16))
    for L in (0, 1, 2, 3, 4, 5, 9, 17):
        obs.append(Ob('fixed_string/len%02d' % L, 'hash', 'h_fs', defines=['LEN=%d' % L], unwind=max(L, 24) + 3, backend='cadical', bound='size=%d, chars and stale bytes symbolic' % L,
                      mem_unwind=max(L, 24) + 3))
    return obs
