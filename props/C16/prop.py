"""C16 - span views cover exactly the requested sub-range; checked mode rejects bad ones."""
ID = 'C16'
MODES = [('nocheck', 'TCB_SPAN_NO_CONTRACT_CHECKING', 0), ('throw', 'TCB_SPAN_THROW_ON_CONTRACT_VIOLATION', 1),
         ('terminate', 'TCB_SPAN_TERMINATE_ON_CONTRACT_VIOLATION', 2)]
HARNESSES = ['h_subspan2', 'h_subspan1', 'h_first', 'h_last', 'h_static_on_dynamic', 'h_static_parent', 'h_index', 'h_at',
             'h_front_back', 'h_observers', 'h_ctors', 'h_ctor_cont4', 'h_write']
INERT = ['_ZNK?St.*', 'snprintf']
BOUNDS = {'quick': 'parent size n in 0..6 ints (exact-size heap block), offsets/counts/indices full 64-bit symbolic, static extents {0,2,3,4}; three contract modes',
          'thorough': 'parent size n in 0..12, otherwise as quick, plus cadical as second back end'}
NOT_COVERED = ['element types other than int32_t; spans over const/volatile qualified containers beyond the listed constructors',
               'as_bytes / get<N> / structured bindings']
ASSUMPTIONS = ['no-checking mode: the documented preconditions of each call are assumed (offset <= size, count <= size - offset, idx < size)',
               'snprintf and the std::logic_error/out_of_range constructors are inert stubs (message formatting is not the subject)',
               'terminate mode: std::terminate is modelled as an uncatchable unwinding (no code runs after it)']


def units(tier):
    us = []
    for name, macro, mode in MODES:
        tv = [(h, ['MODE=%d' % mode]) for h in ('h_subspan2', 'h_last', 'h_static_parent', 'h_at', 'h_write')] if mode < 2 else []
        us.append(Unit(name, 'wrappers.cpp', ['harness.c'], cxxflags=['-D' + macro], inert=INERT, tv=tv, tv_iters=4000))
    return us


def obligations(tier):
    obs = []
    maxn = 6 if tier == 'quick' else 12
    for name, macro, mode in MODES:
        for h in HARNESSES:
            obs.append(Ob('%s/%s' % (name, h[2:]), name, h, defines=['MODE=%d' % mode, 'MAXN=%d' % maxn], unwind=maxn + 2,
                          bound='n<=%d, 64-bit offsets' % maxn))
            if tier == 'thorough':
                obs.append(Ob('%s/%s@cadical' % (name, h[2:]), name, h, defines=['MODE=%d' % mode, 'MAXN=%d' % maxn], unwind=maxn + 2, backend='cadical',
                              bound='n<=%d, 64-bit offsets' % maxn))
    return obs
