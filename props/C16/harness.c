/* C16 harnesses.  MODE 0 = contract checking off (preconditions assumed), 1 = throwing checks,
 * 2 = terminate on violation.  Parent = exact-size heap block of n <= MAXN ints, so a view or
 * reference outside the parent is a cbmc bounds failure when used, and offsets are compared exactly. */
#include "harness.h"
#include "gen.h"
#include <stdlib.h>
#ifndef MAXN
#define MAXN 6
#endif
#define NPOS 0xFFFFFFFFFFFFFFFFULL
extern int __verif_aborted, __verif_abort_expected;

static u32* mkparent(u64 n) {
  u32* p = (u32*)malloc(n * 4 + (n == 0));
#ifdef __CPROVER__
  __CPROVER_assume(p != 0);
#endif
  for (u64 i = 0; i < n; i++) p[i] = 1000 + (u32)i;
  return p;
}
/* outcome bookkeeping shared by all modes */
#if MODE == 0
#define PRE(valid) VASSUME(valid)
#define REJECTED(rc) 0
#define ARM() ((void)0)
#elif MODE == 1
#define PRE(valid) ((void)0)
#define REJECTED(rc) ((rc) == 1)
#define ARM() ((void)0)
#else
#define PRE(valid) ((void)0)
#define REJECTED(rc) (__verif_aborted != 0)
#define ARM() (__verif_abort_expected = 1)
#endif
/* valid request -> accepted with exactly the requested view; invalid request -> rejected */
#define CHECK_VIEW(valid, rc, o, off, sz, what) do { \
    if (valid) { VASSERT(!REJECTED(rc) && (rc) == 0, what ": valid request accepted"); \
                 VASSERT((u64)(o)[0] == (u64)(off) && (u64)(o)[1] == (u64)(sz), what ": view is exactly the requested sub-range"); } \
    else VASSERT(REJECTED(rc), what ": out-of-range request rejected"); } while (0)

void h_subspan2(void) {
  IN(u64, n); IN(u64, off); IN(u64, cnt); VASSUME(n <= MAXN);
  u32* p = mkparent(n); i64 o[2] = {0, 0};
  int valid = off <= n && (cnt == NPOS || cnt <= n - off);
  PRE(valid); ARM();
  u32 rc = w_subspan2(p, n, off, cnt, (u64*)o);
  CHECK_VIEW(valid, rc, o, off, cnt == NPOS ? n - off : cnt, "subspan(offset,count)");
  WITNESS("overflowing_offset_plus_count", off > 0 && cnt != NPOS && off + cnt < off);
  WITNESS("count_is_dynamic_extent", cnt == NPOS && valid);
  WITNESS("offset_eq_size", off == n && valid && n > 0);
  WITNESS("offset_size_plus_1", off == n + 1);
  HARNESS_END();
}
void h_subspan1(void) {
  IN(u64, n); IN(u64, off); VASSUME(n <= MAXN);
  u32* p = mkparent(n); i64 o[2] = {0, 0};
  int valid = off <= n; PRE(valid); ARM();
  u32 rc = w_subspan1(p, n, off, (u64*)o);
  CHECK_VIEW(valid, rc, o, off, n - off, "subspan(offset)");
  HARNESS_END();
}
void h_first(void) {
  IN(u64, n); IN(u64, cnt); VASSUME(n <= MAXN);
  u32* p = mkparent(n); i64 o[2] = {0, 0};
  int valid = cnt <= n; PRE(valid); ARM();
  u32 rc = w_first(p, n, cnt, (u64*)o);
  CHECK_VIEW(valid, rc, o, 0, cnt, "first(count)");
  WITNESS("count_eq_size", cnt == n && n > 0);
  HARNESS_END();
}
void h_last(void) {
  IN(u64, n); IN(u64, cnt); VASSUME(n <= MAXN);
  u32* p = mkparent(n); i64 o[2] = {0, 0};
  int valid = cnt <= n; PRE(valid); ARM();
  u32 rc = w_last(p, n, cnt, (u64*)o);
  CHECK_VIEW(valid, rc, o, n - cnt, cnt, "last(count)");
  HARNESS_END();
}
/* static-count overloads on a dynamic parent */
void h_static_on_dynamic(void) {
  IN(u64, n); IN(u8, which); VASSUME(n <= MAXN && which < 5);
  u32* p = mkparent(n); i64 o[2] = {0, 0}; u32 rc; int valid; u64 off, sz;
  switch (which) {
    case 0: valid = n >= 2; off = 0; sz = 2; PRE(valid); ARM(); rc = w_first_s2(p, n, (u64*)o); break;
    case 1: valid = n >= 2; off = n - 2; sz = 2; PRE(valid); ARM(); rc = w_last_s2(p, n, (u64*)o); break;
    case 2: valid = n >= 3; off = 1; sz = 2; PRE(valid); ARM(); rc = w_sub_s12(p, n, (u64*)o); break;
    case 3: valid = n >= 1; off = 1; sz = n - 1; PRE(valid); ARM(); rc = w_sub_s1(p, n, (u64*)o); break;
    default: valid = n >= 3; off = 3; sz = 0; PRE(valid); ARM(); rc = w_sub_s30(p, n, (u64*)o); break;
  }
  CHECK_VIEW(valid, rc, o, off, sz, "static-count sub-view of a dynamic parent");
  WITNESS("last_static", which == 1 && valid);
  HARNESS_END();
}
/* static-extent parent (extent 4) */
void h_static_parent(void) {
  IN(u64, a); IN(u64, b); IN(u8, which); VASSUME(which < 9);
  u32* p = mkparent(4); i64 o[2] = {0, 0}; u32 rc; int valid; u64 off, sz;
  switch (which) {
    case 0: valid = a <= 4 && (b == NPOS || b <= 4 - a); off = a; sz = b == NPOS ? 4 - a : b; PRE(valid); ARM(); rc = w4_subspan2(p, a, b, (u64*)o); break;
    case 1: valid = a <= 4; off = 0; sz = a; PRE(valid); ARM(); rc = w4_first(p, a, (u64*)o); break;
    case 2: valid = a <= 4; off = 4 - a; sz = a; PRE(valid); ARM(); rc = w4_last(p, a, (u64*)o); break;
    case 3: valid = 1; off = 1; sz = 3; ARM(); rc = w4_last_s3(p, (u64*)o); break;
    case 4: valid = 1; off = 0; sz = 3; ARM(); rc = w4_first_s3(p, (u64*)o); break;
    case 5: valid = 1; off = 1; sz = 3; ARM(); rc = w4_sub_s1(p, (u64*)o); break;
    case 6: valid = 1; off = 1; sz = 2; ARM(); rc = w4_sub_s12(p, (u64*)o); break;
    case 7: valid = 1; off = 4; sz = 0; ARM(); rc = w4_sub_s4(p, (u64*)o); break;
    default: valid = a == 4; off = 0; sz = 4; PRE(valid); ARM(); rc = w4_ctor(p, a, (u64*)o); break;   /* span<int,4>(ptr, count) */
  }
  CHECK_VIEW(valid, rc, o, off, sz, "sub-view of a static-extent parent");
  HARNESS_END();
}
void h_index(void) {
  IN(u64, n); IN(u64, i); IN(u8, which); VASSUME(n <= MAXN && which < 2);
  u32* p = mkparent(n); i64 o[1] = {0};
  int valid = i < n; PRE(valid); ARM();
  u32 rc = which ? w_call(p, n, i, (u64*)o) : w_index(p, n, i, (u64*)o);
  if (valid) VASSERT(rc == 0 && !REJECTED(rc) && (u64)o[0] == i, "operator[] designates parent[i]");
  else VASSERT(REJECTED(rc), "operator[] out of range rejected when checking is on");
  HARNESS_END();
}
void h_at(void) {   /* at() throws for every index >= size() in every mode */
  IN(u64, n); IN(u64, i); VASSUME(n <= MAXN);
  u32* p = mkparent(n); i64 o[1] = {0};
  u32 rc = w_at(p, n, i, (u64*)o);
  if (i < n) VASSERT(rc == 0 && (u64)o[0] == i, "at(i) designates parent[i]");
  else VASSERT(rc == 2, "at(i) throws out_of_range for i >= size()");
  WITNESS("at_size", i == n); WITNESS("at_huge", i > 0x7fffffffffffffffULL);
  HARNESS_END();
}
void h_front_back(void) {
  IN(u64, n); IN(u8, which); VASSUME(n <= MAXN && which < 2);
  u32* p = mkparent(n); i64 o[1] = {0};
  int valid = n > 0; PRE(valid); ARM();
  u32 rc = which ? w_back(p, n, (u64*)o) : w_front(p, n, (u64*)o);
  if (valid) VASSERT(rc == 0 && !REJECTED(rc) && (u64)o[0] == (which ? n - 1 : 0), "front/back designate the first/last parent element");
  else VASSERT(REJECTED(rc), "front/back of an empty span rejected when checking is on");
  HARNESS_END();
}
void h_observers(void) {
  IN(u64, n); IN(u64, k); VASSUME(n <= MAXN && k <= n);
  u32* p = mkparent(n); i64 o[11]; i64 q[4];
  u32 rc = w_obs(p, n, (u64*)o);
  VASSERT(rc == 0 && (u64)o[0] == n && (u64)o[1] == 4 * n && o[2] == (n == 0), "size, size_bytes, empty");
  VASSERT(o[3] == 0 && (u64)o[4] == n && (u64)o[5] == n && o[6] == 0, "begin/end/rbegin/rend bracket the parent");
  VASSERT(o[7] == 0 && (u64)o[8] == n && (u64)o[9] == n && o[10] == 0, "cbegin/cend/crbegin/crend bracket the parent");
  rc = w_iter(p, n, k, (u64*)q);
  VASSERT(rc == 0 && (u64)q[0] == k, "k increments of begin() reach element k");
  VASSERT(k < n ? (u64)q[1] == n - 1 - k : q[1] == -1, "k increments of rbegin() reach element n-1-k");
  VASSERT((u64)q[2] == n && (u64)q[3] == n, "forward and reverse traversal visit n elements");
  HARNESS_END();
}
void h_ctors(void) {
  IN(u64, n); VASSUME(n <= MAXN);
  u32* p = mkparent(n); i64 o[5];
  u32 rc = w_ctor_pp(p, n, (u64*)o);
  VASSERT(rc == 0 && o[0] == 0 && (u64)o[1] == n, "span(first,last) views [first,last)");
  rc = w_ctor_default((u64*)o);
  VASSERT(rc == 0 && o[0] == 1 && o[1] == 0 && o[2] == 0, "default span is empty");
  rc = w_ctor_cont(p, n, (u64*)o);
  VASSERT(rc == 0 && o[0] == 0 && (u64)o[1] == n && o[2] == 0 && (u64)o[3] == n, "span(container) views the container's elements");
  u32* p4 = mkparent(4);
  rc = w_ctor_carr(p4, (u64*)o);
  VASSERT(rc == 0 && o[0] == 0 && o[1] == 4 && o[2] == 0 && o[3] == 4, "span(C array) views the array");
  rc = w_ctor_stdarr(p4, (u64*)o);
  VASSERT(rc == 0 && o[0] == 0 && o[1] == 4 && o[2] == 0 && o[3] == 4, "span(std::array) views the array");
  rc = w_ctor_conv(p4, 4, (u64*)o);
  VASSERT(rc == 0 && o[0] == 0 && o[1] == 4 && o[2] == 0 && o[3] == 4 && o[4] == 4, "converting/copy construction and assignment keep the view");
  HARNESS_END();
}
void h_ctor_cont4(void) {   /* static-extent span from a container: size must match the extent */
  IN(u64, n); VASSUME(n <= MAXN);
  u32* p = mkparent(n); i64 o[2] = {0, 0};
  int valid = n == 4; PRE(valid); ARM();
  u32 rc = w_ctor_cont4(p, n, (u64*)o);
  CHECK_VIEW(valid, rc, o, 0, 4, "span<T,4>(container)");
  HARNESS_END();
}
void h_write(void) {
  IN(u64, n); IN(u64, off); IN(u64, cnt); IN(u64, i); IN(u32, val); IN(u8, which); VASSUME(n <= MAXN && which < 2);
  u32* p = mkparent(n);
  u32 rc; u64 target;
  if (which == 0) { VASSUME(off <= n && (cnt == NPOS || cnt <= n - off)); VASSUME(i < (cnt == NPOS ? n - off : cnt)); target = off + i; rc = w_write(p, n, off, cnt, i, val); }
  else { VASSUME(cnt <= n && i < cnt); target = n - cnt + i; rc = w_write_it(p, n, cnt, i, val); }
  VASSERT(rc == 0, "write through a valid sub-view succeeds");
  for (u64 j = 0; j < n; j++) VASSERT(p[j] == (j == target ? val : 1000 + (u32)j), "write lands in exactly parent[offset+i]");
  HARNESS_END();
}
