// C16 wrappers: every public span operation on a caller-provided parent block.
// Compiled three times: -DTCB_SPAN_NO_CONTRACT_CHECKING / -DTCB_SPAN_THROW_ON_CONTRACT_VIOLATION /
// -DTCB_SPAN_TERMINATE_ON_CONTRACT_VIOLATION.  rc: 0 ok, 1 contract_violation_error, 2 out_of_range, 3 other.
#include <cstdint>
#include <cstddef>
#include <array>
#include <stdexcept>
#include <xtl/xspan.hpp>
using xtl::span;
typedef int32_t elem;
#define W extern "C" __attribute__((noinline)) uint32_t
#if defined(TCB_SPAN_THROW_ON_CONTRACT_VIOLATION)
#define GUARD(...) try { __VA_ARGS__; return 0; } catch (tcb::contract_violation_error&) { return 1; } catch (std::out_of_range&) { return 2; } catch (...) { return 3; }
#else
#define GUARD(...) try { __VA_ARGS__; return 0; } catch (std::out_of_range&) { return 2; } catch (...) { return 3; }
#endif
#define OUT(r) o[0] = (r).data() - p; o[1] = (r).size()
static_assert(xtl::dynamic_extent == -1, "dynamic_extent");
static_assert(std::is_same<span<elem>::index_type, std::size_t>::value, "index_type is size_t");
#pragma GCC diagnostic ignored "-Wdeprecated-declarations"

// dynamic-extent parent
W w_subspan2(elem* p, int64_t n, int64_t a, int64_t b, int64_t* o) { GUARD(span<elem> s(p, n); auto r = s.subspan(a, b); OUT(r)) }
W w_subspan1(elem* p, int64_t n, int64_t a, int64_t* o) { GUARD(span<elem> s(p, n); auto r = s.subspan(a); OUT(r)) }
W w_first(elem* p, int64_t n, int64_t a, int64_t* o) { GUARD(span<elem> s(p, n); auto r = s.first(a); OUT(r)) }
W w_last(elem* p, int64_t n, int64_t a, int64_t* o) { GUARD(span<elem> s(p, n); auto r = s.last(a); OUT(r)) }
W w_first_s2(elem* p, int64_t n, int64_t* o) { GUARD(span<elem> s(p, n); span<elem, 2> r = s.first<2>(); OUT(r)) }
W w_last_s2(elem* p, int64_t n, int64_t* o) { GUARD(span<elem> s(p, n); span<elem, 2> r = s.last<2>(); OUT(r)) }
W w_sub_s12(elem* p, int64_t n, int64_t* o) { GUARD(span<elem> s(p, n); span<elem, 2> r = s.subspan<1, 2>(); OUT(r)) }
W w_sub_s1(elem* p, int64_t n, int64_t* o) { GUARD(span<elem> s(p, n); span<elem> r = s.subspan<1>(); OUT(r)) }
W w_sub_s30(elem* p, int64_t n, int64_t* o) { GUARD(span<elem> s(p, n); span<elem, 0> r = s.subspan<3, 0>(); OUT(r)) }
// static-extent parent (extent 4)
W w4_ctor(elem* p, int64_t n, int64_t* o) { GUARD(span<elem, 4> s(p, n); OUT(s)) }
W w4_subspan2(elem* p, int64_t a, int64_t b, int64_t* o) { GUARD(span<elem, 4> s(p, 4); auto r = s.subspan(a, b); OUT(r)) }
W w4_first(elem* p, int64_t a, int64_t* o) { GUARD(span<elem, 4> s(p, 4); auto r = s.first(a); OUT(r)) }
W w4_last(elem* p, int64_t a, int64_t* o) { GUARD(span<elem, 4> s(p, 4); auto r = s.last(a); OUT(r)) }
W w4_last_s3(elem* p, int64_t* o) { GUARD(span<elem, 4> s(p, 4); span<elem, 3> r = s.last<3>(); OUT(r)) }
W w4_first_s3(elem* p, int64_t* o) { GUARD(span<elem, 4> s(p, 4); span<elem, 3> r = s.first<3>(); OUT(r)) }
W w4_sub_s1(elem* p, int64_t* o) { GUARD(span<elem, 4> s(p, 4); span<elem, 3> r = s.subspan<1>(); OUT(r)) }
W w4_sub_s12(elem* p, int64_t* o) { GUARD(span<elem, 4> s(p, 4); span<elem, 2> r = s.subspan<1, 2>(); OUT(r)) }
W w4_sub_s4(elem* p, int64_t* o) { GUARD(span<elem, 4> s(p, 4); span<elem, 0> r = s.subspan<4>(); OUT(r)) }
// element access
W w_index(elem* p, int64_t n, int64_t i, int64_t* o) { GUARD(span<elem> s(p, n); o[0] = &s[i] - p) }
W w_call(elem* p, int64_t n, int64_t i, int64_t* o) { GUARD(span<elem> s(p, n); o[0] = &s(i) - p) }
W w_at(elem* p, int64_t n, int64_t i, int64_t* o) { GUARD(span<elem> s(p, n); o[0] = &s.at(i) - p) }
W w_front(elem* p, int64_t n, int64_t* o) { GUARD(span<elem> s(p, n); o[0] = &s.front() - p) }
W w_back(elem* p, int64_t n, int64_t* o) { GUARD(span<elem> s(p, n); o[0] = &s.back() - p) }
W w_obs(elem* p, int64_t n, int64_t* o)
{
    GUARD(span<elem> s(p, n); o[0] = s.size(); o[1] = s.size_bytes(); o[2] = s.empty(); o[3] = s.begin() - p; o[4] = s.end() - p;
          o[5] = s.rbegin().base() - p; o[6] = s.rend().base() - p; o[7] = s.cbegin() - p; o[8] = s.cend() - p;
          o[9] = s.crbegin().base() - p; o[10] = s.crend().base() - p)
}
// k steps forward / backward, and the length of a full traversal
W w_iter(elem* p, int64_t n, int64_t k, int64_t* o)
{
    GUARD(span<elem> s(p, n); auto it = s.begin(); for (int64_t j = 0; j < k; ++j) ++it; o[0] = it - p;
          auto rit = s.rbegin(); for (int64_t j = 0; j < k; ++j) ++rit; o[1] = (k < n) ? &*rit - p : -1;
          int64_t c = 0; for (auto q = s.begin(); q != s.end(); ++q) ++c; o[2] = c;
          int64_t rc = 0; for (auto q = s.rbegin(); q != s.rend(); ++q) ++rc; o[3] = rc)
}
// constructors
W w_ctor_pp(elem* p, int64_t n, int64_t* o) { GUARD(span<elem> s(p, p + n); OUT(s)) }
W w_ctor_default(int64_t* o) { GUARD(span<elem> s; o[0] = (s.data() == nullptr); o[1] = s.size(); span<elem, 0> z; o[2] = z.size()) }
W w_ctor_carr(elem* p, int64_t* o) { GUARD(span<elem> s(*reinterpret_cast<elem(*)[4]>(p)); OUT(s); span<elem, 4> t(*reinterpret_cast<elem(*)[4]>(p)); o[2] = t.data() - p; o[3] = t.size()) }
W w_ctor_stdarr(elem* p, int64_t* o)
{
    GUARD(auto& a = *reinterpret_cast<std::array<elem, 4>*>(p); span<elem> s(a); OUT(s); span<const elem, 4> t(const_cast<const std::array<elem, 4>&>(a));
          o[2] = t.data() - p; o[3] = t.size())
}
struct Cont { elem* d; std::size_t n; elem* data() { return d; } const elem* data() const { return d; } std::size_t size() const { return n; } };
W w_ctor_cont(elem* p, int64_t n, int64_t* o) { GUARD(Cont c{p, static_cast<std::size_t>(n)}; span<elem> s(c); OUT(s); const Cont& cc = c; span<const elem> t(cc); o[2] = t.data() - p; o[3] = t.size()) }
W w_ctor_cont4(elem* p, int64_t n, int64_t* o) { GUARD(Cont c{p, static_cast<std::size_t>(n)}; span<elem, 4> s(c); OUT(s)) }
W w_ctor_conv(elem* p, int64_t n, int64_t* o) { GUARD(span<elem> s(p, n); span<const elem> t(s); OUT(t); span<elem, 4> u(p, 4); span<elem> v(u); o[2] = v.data() - p; o[3] = v.size(); span<elem> cp(s); cp = v; o[4] = cp.size()) }
// writes through a sub-view land in the parent
W w_write(elem* p, int64_t n, int64_t off, int64_t cnt, int64_t i, int32_t val) { GUARD(span<elem> s(p, n); auto r = s.subspan(off, cnt); r[i] = val) }
W w_write_it(elem* p, int64_t n, int64_t cnt, int64_t i, int32_t val) { GUARD(span<elem> s(p, n); auto r = s.last(cnt); *(r.begin() + i) = val) }
