"""C08 - half conversions, arithmetic and comparisons are exactly IEEE 754 binary16 (software path)."""
import random
ID = 'C08'
CLAIM = ('software path of half: float/double/int -> half, half -> float/double/int, + - * / fma sqrt, compound and ++/--, six comparisons and the is* family, '
         'classification, sign operations and hash on ALL operand bit patterns (2^32 floats, 2^64 doubles, 2^32 half pairs, 2^48 fma triples) against cbmc IEEE-754 '
         'semantics and an integer binary16 reference model sharing the multiplier/divider circuit; F16C path not covered')
BOUNDS = {
    'quick': 'no bound on values: all 2^32 floats, all 2^64 doubles, all 2^32 ints, all 2^16 halves, all 2^32 ordered pairs for + - * / and the comparisons, '
             'all 2^48 triples for fma.  * / fma sqrt are decided against the integer reference model (shared multiplier/divider circuit); the model is decided '
             'against cbmc IEEE float semantics on a seeded sample of 16 of the 1024 significand partitions. Loop bound: unwind 12 (normalisation loops <= 10, checked by unwinding assertions)',
    'thorough': 'as quick, and * and / additionally decided directly against cbmc IEEE _Float16/float semantics on all 1024 partitions of one operand significand (the union is all operand pairs), plus the model-vs-IEEE query on all 1024 partitions'}
NOT_COVERED = ['F16C intrinsic path (-mf16c): the two conversion intrinsics are hardware; the translator rejects their vector types, so "bit-identical with F16C" is NOT decided here',
               'HALF_ERRHANDLING_* configurations, rounding styles other than round-to-nearest, HALF_ARITHMETIC_TYPE',
               'stream operators, numeric_limits constants, literals']
ASSUMPTIONS = ['cbmc _Float16/float/double arithmetic and conversions are IEEE 754 round-to-nearest-even (the oracle)',
               'NaN results are compared as "is a NaN" (payload and sign of NaN results are not part of the property) except NaN sign preservation in float->half']

HS = ['h_f2h', 'h_d2h', 'h_h2f', 'h_int', 'h_add', 'h_sub', 'h_incdec', 'h_addf', 'h_mul', 'h_div', 'h_fma', 'h_sqrt', 'h_sign', 'h_cmp', 'h_cmpf', 'h_class', 'h_hash']


def units(tier):
    tv = [(h, []) for h in ('h_f2h', 'h_h2f', 'h_add', 'h_mul', 'h_div', 'h_fma', 'h_sqrt', 'h_cmp', 'h_int', 'h_d2h')]
    return [Unit('half', 'wrappers.cpp', ['harness.c'], tv=tv, tv_iters=200000, ir2c_flags=['--hook-arith'])]


def obligations(tier):
    obs = []
    for h in HS:
        be = {'h_div': 'cadical', 'h_fma': 'cadical', 'h_mul': 'cadical', 'h_sqrt': 'cadical'}.get(h, 'minisat')
        obs.append(Ob(h[2:], 'half', h, unwind={'h_fma': 26, 'h_int': 34}.get(h, 12), unwindset=['h_round_pack.0:65', 'ref_sqrt.0:19', 'h_unpack.0:11'], backend=be,
                      bound='all operand values', min_witnesses=1 if h in ('h_f2h', 'h_h2f', 'h_add', 'h_mul', 'h_div', 'h_fma', 'h_sqrt', 'h_cmp', 'h_class') else 0))
    rnd = random.Random(8)
    parts = list(range(1024)) if tier == 'thorough' else sorted(rnd.sample(range(1024), 16))
    for k in parts:
        for h in (('h_refmul_ieee', 'h_refdiv_ieee') + (('h_mul_ieee', 'h_div_ieee') if tier == 'thorough' else ())):
            obs.append(Ob('%s/part%04d' % (h[2:], k), 'half', h, defines=['PART=%d' % k], unwind=12,
                          unwindset=['h_round_pack.0:65', 'h_unpack.0:11'], backend='cadical', min_witnesses=0,
                          bound='significand of one operand fixed to %d, all other 22 operand bits symbolic' % k))
    return obs
