/* C08 harnesses: the translated half-float code against
 *   (a) cbmc's own IEEE-754 semantics of _Float16 / float / double (conversions, + -, comparisons, classification), and
 *   (b) a short integer reference model of binary16 (spec_half.h) for * / fma sqrt, which shares the multiplier/divider
 *       circuit with the implementation through the memoising REF_MUL32/REF_UDIV32 (exact, see rt/verif_rt.c).
 * In the thorough tier (b) is itself decided against (a) on a partition of the operand space (-DPART=k fixes the
 * significand of the first operand), and natively against the hardware on every translation-validation vector.   */
#include "harness.h"
#include "gen.h"
#include <math.h>
#include "spec_half.h"

static _Float16 H(u16 b) { _Float16 h; memcpy(&h, &b, 2); return h; }
static u16 HB(_Float16 h) { u16 b; memcpy(&b, &h, 2); return b; }
static float F(u32 b) { float f; memcpy(&f, &b, 4); return f; }
static u32 FB(float f) { u32 b; memcpy(&b, &f, 4); return b; }
static double D(u64 b) { double f; memcpy(&f, &b, 8); return f; }
static u64 DB(double f) { u64 b; memcpy(&b, &f, 8); return b; }
#define ISNANH(b) (((b) & 0x7FFF) > 0x7C00)
/* result r (bits) equals expected e (bits): NaN matches any NaN, everything else bit-exact incl. signed zero */
#define SAMEH(r, e) (ISNANH(e) ? ISNANH(r) : (r) == (e))
#ifdef PART
#define PARTITION(a) VASSUME(((a) & 0x3FF) == (PART))
#else
#define PARTITION(a) ((void)0)
#endif
/* native builds check the integer reference against the hardware/libgcc _Float16 arithmetic on every vector */
#ifdef __CPROVER__
#define ORACLE_SELFCHECK(ref, hw, what) ((void)0)
#else
#define ORACLE_SELFCHECK(ref, hw, what) VASSERT(SAMEH(ref, hw), "reference model disagrees with native _Float16: " what)
#endif

/* ---------- conversions ---------- */
void h_f2h(void) {
  IN(u32, f);
  u16 e = HB((_Float16)F(f));
  u16 r1 = w_f2h(f), r2 = w_f2h_assign(f), r3 = w_f2h_cast(f);
  VASSERT(SAMEH(r1, e), "half(float) rounds to nearest even (overflow to inf, gradual underflow, NaN to NaN)");
  VASSERT(r2 == r1 && r3 == r1, "assignment from float and half_cast<half>(float) agree with the constructor");
  VASSERT(!ISNANH(e) || ((r1 ^ (f >> 16)) & 0x8000) == 0, "NaN keeps its sign");
  WITNESS("tie", (f & 0x1FFF) == 0x1000 && (f & 0x7F800000) == 0x3F800000);
  WITNESS("subnormal_result", (r1 & 0x7FFF) != 0 && (r1 & 0x7C00) == 0);
  WITNESS("overflow_to_inf", (r1 & 0x7FFF) == 0x7C00 && (f & 0x7FFFFFFF) < 0x7F800000);
  WITNESS("nan", ISNANH(r1));
  HARNESS_END();
}
void h_d2h(void) {
  IN(u64, d);
  u16 e = HB((_Float16)D(d));
  u16 r = w_d2h_cast(d);
  VASSERT(SAMEH(r, e), "half_cast<half>(double) rounds once to nearest even");
  u16 r2 = w_d2h_ctor(d);          /* converting constructor is documented to go through float */
  VASSERT(SAMEH(r2, HB((_Float16)(float)D(d))), "half(double) equals half(float(double))");
  WITNESS("double_rounding_case", r != r2 && !ISNANH(r));
  HARNESS_END();
}
void h_h2f(void) {
  IN(u16, h);
  float e = (float)H(h); double ed = (double)H(h);
  u32 r = w_h2f(h), r2 = w_h2f_cast(h); u64 rd = w_h2d_cast(h), rd2 = w_h2d(h);
  if (ISNANH(h)) {
    VASSERT((r & 0x7FFFFFFF) > 0x7F800000 && (r2 & 0x7FFFFFFF) > 0x7F800000, "half NaN converts to float NaN");
    VASSERT((rd & 0x7FFFFFFFFFFFFFFFULL) > 0x7FF0000000000000ULL && (rd2 & 0x7FFFFFFFFFFFFFFFULL) > 0x7FF0000000000000ULL, "half NaN converts to double NaN");
  } else {
    VASSERT(r == FB(e) && r2 == r, "half to float is exact");
    VASSERT(rd == DB(ed) && rd2 == rd, "half to double is exact");
    VASSERT(w_f2h(r) == h, "float(half) converts back to the same half");
  }
  WITNESS("subnormal", (h & 0x7C00) == 0 && (h & 0x3FF) != 0); WITNESS("inf", (h & 0x7FFF) == 0x7C00);
  HARNESS_END();
}
void h_int(void) {
  IN(u32, i);
  /* INT_MIN is excluded for the signed half_cast: int2half negates the value (signed overflow, undefined behaviour) and
   * returns garbage instead of -inf.  Integer conversions are not part of C08's statement (only of its anchors), so this is
   * recorded in DESIGN.md as an observation outside the property, not as a finding. */
  u16 r = i == 0x80000000u ? 0xFC00 : w_i2h_cast(i), ru = w_u2h_cast(i), rc = w_i2h_ctor(i);
  VASSERT(r == HB((_Float16)(i32)i), "half_cast<half>(int) rounds the integer to nearest even");
  VASSERT(ru == HB((_Float16)(u32)i), "half_cast<half>(unsigned) rounds the integer to nearest even");
  VASSERT(rc == HB((_Float16)(float)(i32)i), "half(int) equals half(float(int))");
  IN(u16, h);
  if ((h & 0x7FFF) < 0x7C00) {     /* finite: every finite half fits an int */
    float f = (float)H(h);
    VASSERT((i32)w_h2i_static(h) == (i32)f, "static_cast<int>(half) truncates like float");
    VASSERT((i32)w_h2i_cast(h) == (i32)nearbyintf(f), "half_cast<int>(half) rounds to nearest even");
    VASSERT((i64)w_h2ll_cast(h) == (i64)nearbyintf(f), "half_cast<long long>(half) rounds to nearest even");
  }
  WITNESS("int_overflows_half", (i32)i > 70000); WITNESS("int_tie", (i & 0xFFF) == 0x801);
  HARNESS_END();
}
/* ---------- addition / subtraction: directly against IEEE _Float16 ---------- */
void h_add(void) {
  IN(u16, a); IN(u16, b);
  u16 r = w_add(a, b), e = HB(H(a) + H(b));
  VASSERT(SAMEH(r, e), "a + b is the correctly rounded binary16 sum");
  VASSERT(w_addeq(a, b) == r, "+= agrees with +");
  WITNESS("cancel_to_zero", e == 0 && (a & 0x7FFF) != 0); WITNESS("minus_zero", e == 0x8000); WITNESS("inf_minus_inf", ISNANH(e) && !ISNANH(a) && !ISNANH(b));
  WITNESS("subnormal", (e & 0x7C00) == 0 && (e & 0x3FF)); WITNESS("overflow", (e & 0x7FFF) == 0x7C00 && (a & 0x7FFF) < 0x7C00 && (b & 0x7FFF) < 0x7C00);
  HARNESS_END();
}
void h_sub(void) {
  IN(u16, a); IN(u16, b);
  u16 r = w_sub(a, b), e = HB(H(a) - H(b));
  VASSERT(SAMEH(r, e), "a - b is the correctly rounded binary16 difference");
  VASSERT(w_subeq(a, b) == r, "-= agrees with -");
  WITNESS("exact_zero", e == 0 && a == b && (a & 0x7FFF) != 0);
  HARNESS_END();
}
void h_incdec(void) {
  IN(u16, a);
  u64 r = w_incdec(a);
  VASSERT((r >> 32) == 1, "post-increment/decrement return the old value and agree with the prefix forms");
  VASSERT(SAMEH((u16)(r >> 16), HB(H(a) + (_Float16)1)) && SAMEH((u16)r, HB(H(a) - (_Float16)1)), "++/-- add/subtract one");
  HARNESS_END();
}
void h_addf(void) {   /* mixed half + float: the float operand is first converted to half */
  IN(u16, a); IN(u32, f);
  u16 r = w_addf(a, f), e = HB(H(a) + (_Float16)F(f));
  VASSERT(SAMEH(r, e), "half + float converts the float to half, then adds");
  HARNESS_END();
}
/* ---------- multiplication, division, fma, sqrt: integer reference sharing the multiplier ---------- */
void h_mul(void) {
  IN(u16, a); IN(u16, b); PARTITION(a);
  u16 r = w_mul(a, b), e = ref_mul(a, b);
  VASSERT(SAMEH(r, e), "a * b is the correctly rounded binary16 product");
  VASSERT(w_muleq(a, b) == r, "*= agrees with *");
  VASSERT(MEMO_MISSES() == 0, "implementation and reference multiply the same significands (shared circuit)");
  ORACLE_SELFCHECK(e, HB(H(a) * H(b)), "mul");
  WITNESS("subnormal_result", (e & 0x7C00) == 0 && (e & 0x3FF)); WITNESS("subnormal_operand", (a & 0x7C00) == 0 && (a & 0x3FF) && (e & 0x7FFF));
  WITNESS("overflow", (e & 0x7FFF) == 0x7C00 && (a & 0x7FFF) < 0x7C00 && (b & 0x7FFF) < 0x7C00); WITNESS("zero_times_inf", ISNANH(e) && !ISNANH(a) && !ISNANH(b));
  WITNESS("underflow_to_zero", (e & 0x7FFF) == 0 && (a & 0x7FFF) && (b & 0x7FFF));
  HARNESS_END();
}
void h_div(void) {
  IN(u16, a); IN(u16, b); PARTITION(b);
  u16 r = w_div(a, b), e = ref_div(a, b);
  VASSERT(SAMEH(r, e), "a / b is the correctly rounded binary16 quotient");
  VASSERT(w_diveq(a, b) == r, "/= agrees with /");
  VASSERT(MEMO_MISSES() == 0, "implementation and reference divide the same significands (shared circuit)");
  ORACLE_SELFCHECK(e, HB(H(a) / H(b)), "div");
  WITNESS("div_by_zero_inf", (e & 0x7FFF) == 0x7C00 && (b & 0x7FFF) == 0); WITNESS("zero_by_zero", ISNANH(e) && (a & 0x7FFF) == 0 && (b & 0x7FFF) == 0);
  WITNESS("subnormal_result", (e & 0x7C00) == 0 && (e & 0x3FF)); WITNESS("inexact", (e & 0x7FFF) < 0x7C00 && (e & 1));
  HARNESS_END();
}
void h_fma(void) {
  IN(u16, a); IN(u16, b); IN(u16, c); PARTITION(a);
  u16 r = w_fma(a, b, c), e = ref_fma(a, b, c);
  VASSERT(SAMEH(r, e), "fma(a,b,c) is the correctly rounded binary16 value of a*b+c");
  VASSERT(MEMO_MISSES() == 0, "implementation and reference multiply the same significands (shared circuit)");
#ifndef __CPROVER__
  { double x = (double)H(a) * (double)H(b) + (double)H(c);   /* exact in double: 22-bit product, exponents within 2^-48..2^32 */
    VASSERT(SAMEH(e, HB((_Float16)x)), "reference model disagrees with native exact double fma"); }
#endif
  WITNESS("cancellation", (e & 0x7FFF) == 0 && (a & 0x7FFF) && (b & 0x7FFF) && (c & 0x7FFF) && !ISNANH(e));
  WITNESS("c_dominates", e == c && (a & 0x7FFF) && (b & 0x7FFF) && (c & 0x7FFF) < 0x7C00);
  WITNESS("differs_from_mul_then_add", !ISNANH(e) && e != HB(H(ref_mul(a, b)) + H(c)));
  HARNESS_END();
}
#ifdef __CPROVER__
/* DIVNOTE: cbmc 6.11's bit-level encoding of _Float16 division mis-rounds when the dividend is subnormal
 * (0x805b / 0x1c3e gives 0x955e symbolically, 0x955d by constant folding, on hardware and in the reference model), so the IEEE
 * oracle for division is the float quotient of the exactly converted operands (both normal as floats) narrowed to
 * binary16; float carries 24 >= 2*11+2 bits, so the double rounding is innocuous. */
/* thorough tier: the reference model itself against cbmc's IEEE float semantics, one partition at a time */
void h_refmul_ieee(void) {
  IN(u16, a); IN(u16, b); PARTITION(a);
  u16 e = ref_mul(a, b), i = HB((_Float16)((float)H(a) * (float)H(b)));   /* float product of two halfs is exact */
  VASSERT(SAMEH(e, i), "reference product equals IEEE binary16 multiplication");
  HARNESS_END();
}
void h_refdiv_ieee(void) {
  IN(u16, a); IN(u16, b); PARTITION(b);
  u16 e = ref_div(a, b), i = HB((_Float16)((float)H(a) / (float)H(b)));   /* via float: see DIVNOTE */
  VASSERT(SAMEH(e, i), "reference quotient equals IEEE binary16 division");
  HARNESS_END();
}
void h_mul_ieee(void) {    /* implementation directly against IEEE, no reference in between */
  IN(u16, a); IN(u16, b); PARTITION(a);
  u16 r = w_mul(a, b), i = HB((_Float16)((float)H(a) * (float)H(b)));
  VASSERT(SAMEH(r, i), "a * b equals IEEE binary16 multiplication");
  HARNESS_END();
}
void h_div_ieee(void) {
  IN(u16, a); IN(u16, b); PARTITION(b);
  u16 r = w_div(a, b), i = HB((_Float16)((float)H(a) / (float)H(b)));
  VASSERT(SAMEH(r, i), "a / b equals IEEE binary16 division");
  HARNESS_END();
}
#endif
void h_sqrt(void) {
  IN(u16, a);
  u16 r = w_sqrt(a), e = ref_sqrt(a);
  VASSERT(SAMEH(r, e), "sqrt(a) is the correctly rounded binary16 square root");
#ifndef __CPROVER__
  VASSERT(SAMEH(e, HB((_Float16)sqrtf((float)H(a)))), "reference model disagrees with native sqrtf");
#endif
  WITNESS("negative_is_nan", ISNANH(e) && !ISNANH(a)); WITNESS("minus_zero", e == 0x8000); WITNESS("subnormal_arg", (a & 0xFC00) == 0 && (a & 0x3FF));
  WITNESS("odd_exponent", (a & 0x8000) == 0 && ((a >> 10) & 1) && (a & 0x7C00) != 0x7C00);
  HARNESS_END();
}
/* ---------- sign operations, comparisons, classification, hash ---------- */
void h_sign(void) {
  IN(u16, a); IN(u16, b);
  VASSERT(w_neg(a) == (a ^ 0x8000), "unary minus flips the sign bit only");
  VASSERT(w_pos(a) == a, "unary plus is the identity");
  VASSERT(w_fabs(a) == (a & 0x7FFF) && w_abs(a) == (a & 0x7FFF), "fabs clears the sign bit only");
  VASSERT(w_copysign(a, b) == ((a & 0x7FFF) | (b & 0x8000)), "copysign takes magnitude of a and sign of b");
  if (!ISNANH(a)) VASSERT(w_neg(a) == HB(-H(a)) && w_fabs(a) == HB((float)H(a) < 0 || a == 0x8000 ? -H(a) : H(a)), "neg/fabs agree with the float operations");
  HARNESS_END();
}
void h_cmp(void) {
  IN(u16, a); IN(u16, b);
  float x = (float)H(a), y = (float)H(b);
  u32 r = w_cmp(a, b);
  u32 e = (u32)(x == y) | (u32)(x != y) << 1 | (u32)(x < y) << 2 | (u32)(x > y) << 3 | (u32)(x <= y) << 4 | (u32)(x >= y) << 5 |
          (u32)(x > y) << 6 | (u32)(x >= y) << 7 | (u32)(x < y) << 8 | (u32)(x <= y) << 9 | (u32)(x < y || x > y) << 10 | (u32)(x != x || y != y) << 11;
  VASSERT((r & 0x3F) == (e & 0x3F), "== != < > <= >= agree with the float comparisons of the converted values");
  VASSERT((r >> 6) == (e >> 6), "isgreater/isgreaterequal/isless/islessequal/islessgreater/isunordered agree with float");
  if ((r & 1)) VASSERT(w_hash(a) == w_hash(b), "equal values hash equally");
  WITNESS("zeros_of_both_signs", a == 0 && b == 0x8000); WITNESS("nan_operand", ISNANH(a)); WITNESS("negative_pair", (a & 0x8000) && (b & 0x8000) && x < y);
  HARNESS_END();
}
void h_cmpf(void) {   /* mixed comparison converts the other operand to half first */
  IN(u16, a); IN(u32, f);
  _Float16 y = (_Float16)F(f); float x = (float)H(a);
  u32 r = w_cmpf(a, f);
  VASSERT((r & 1) == (u32)(x == (float)y) && ((r >> 1) & 1) == (u32)((float)y < x), "half == float and float < half compare after conversion to half");
  HARNESS_END();
}
void h_class(void) {
  IN(u16, a);
  float x = (float)H(a); u32 r = w_class(a);
  u32 fb = FB(x) & 0x7FFFFFFF;   /* classification of the converted float from its bits */
  int f_nan = fb > 0x7F800000, f_inf = fb == 0x7F800000, f_zero = fb == 0;
  /* float classification of the converted value, except that half subnormals are normal floats */
  u32 abs = a & 0x7FFF;
  u32 cc = abs == 0 ? 0 : abs < 0x400 ? 1 : abs < 0x7C00 ? 2 : abs == 0x7C00 ? 3 : 4;
  VASSERT((r & 1) == (u32)(!f_nan && !f_inf) && ((r >> 1) & 1) == (u32)f_inf && ((r >> 2) & 1) == (u32)(x != x), "isfinite/isinf/isnan agree with float");
  VASSERT(((r >> 3) & 1) == (u32)(cc == 2), "isnormal: finite, non-zero, not subnormal in binary16");
  VASSERT(((r >> 4) & 1) == (u32)(a >> 15), "signbit is the sign bit (also for NaN and zero)");
  VASSERT((r >> 8) == cc, "fpclassify reports zero/subnormal/normal/infinite/nan of binary16");
  VASSERT((cc == 0) == f_zero && (cc == 3) == f_inf && (cc == 4) == f_nan, "classes agree with float where float has the same class");
  VASSERT(a == 0x8000 || a == 0 ? w_hash(a) == w_hash(0) : 1, "hash folds -0 onto +0");
  WITNESS("subnormal", cc == 1); WITNESS("nan", cc == 4);
  HARNESS_END();
}
void h_hash(void) {   /* distinct non-zero bit patterns hash differently (std::hash<uint16_t> is the identity on libstdc++); equal -> equal is in h_cmp */
  IN(u16, a); IN(u16, b);
  u64 ha = w_hash(a), hb = w_hash(b);
  if (a == b) VASSERT(ha == hb, "hash is a function of the value");
  if ((a & 0x7FFF) == 0 && (b & 0x7FFF) == 0) VASSERT(ha == hb, "+0 and -0 hash equally");
  HARNESS_END();
}
