/* Integer reference model of IEEE 754 binary16 arithmetic (round to nearest even).
 * Deliberately short: unpack -> exact integer operation -> one rounding step -> pack.
 * It is validated on every run natively against the compiler's _Float16 arithmetic (translation-validation
 * vectors) and, in the thorough tier, decided against cbmc's IEEE semantics partition by partition. */
#ifndef SPEC_HALF_H
#define SPEC_HALF_H
typedef struct { int cls; u32 sign; int e; u32 m; } hunp;   /* cls 0 zero, 1 finite (value = m*2^e, 2^10 <= m < 2^11), 2 inf, 3 nan */

static hunp h_unpack(u16 h) {
  hunp u; u32 abs = h & 0x7FFF; u.sign = h >> 15; u.e = 0; u.m = 0;
  if (abs > 0x7C00) { u.cls = 3; return u; }
  if (abs == 0x7C00) { u.cls = 2; return u; }
  if (abs == 0) { u.cls = 0; return u; }
  u.cls = 1;
  u32 ex = abs >> 10, m = abs & 0x3FF;
  if (ex == 0) { int e = -24; for (int i = 0; i < 10; i++) if (m < 0x400) { m <<= 1; e--; } u.m = m; u.e = e; }
  else { u.m = m | 0x400; u.e = (int)ex - 25; }
  return u;
}
/* round (M + sticky*epsilon) * 2^E, M != 0, to binary16 */
static u16 h_round_pack(u32 sign, u64 M, int E, int sticky) {
  int p = 0;
  for (int i = 0; i < 64; i++) if ((M >> i) & 1) p = i;          /* position of the leading one */
  int ex = E + p;                                                 /* value in [2^ex, 2^(ex+1)) */
  if (ex > 15) return (u16)(sign << 15 | 0x7C00);
  int q = (ex < -14 ? -14 : ex) - 10;                             /* exponent of the result's unit in the last place */
  int sh = q - E;
  u64 mant; int g = 0, s = sticky != 0;
  if (sh <= 0) mant = M << (-sh);
  else if (sh > 63) { mant = 0; s = 1; }
  else { mant = M >> sh; g = (int)((M >> (sh - 1)) & 1); s = s || (M & ((1ULL << (sh - 1)) - 1)) != 0; }
  mant += (u64)(g & (s | (int)(mant & 1)));
  u32 r = ex >= -14 ? (u32)((ex + 14) << 10) + (u32)mant : (u32)mant;   /* implicit bit adds 1 to the exponent field; a carry propagates naturally */
  if (r >= 0x7C00) r = 0x7C00;
  return (u16)(sign << 15 | r);
}
#define H_NAN 0x7FFF
static u16 ref_mul(u16 a, u16 b) {
  hunp x = h_unpack(a), y = h_unpack(b); u32 sign = x.sign ^ y.sign;
  if (x.cls == 3 || y.cls == 3) return H_NAN;
  if (x.cls == 2 || y.cls == 2) return (x.cls == 0 || y.cls == 0) ? H_NAN : (u16)(sign << 15 | 0x7C00);
  if (x.cls == 0 || y.cls == 0) return (u16)(sign << 15);
  return h_round_pack(sign, REF_MUL32(x.m, y.m), x.e + y.e, 0);
}
static u16 ref_div(u16 a, u16 b) {
  hunp x = h_unpack(a), y = h_unpack(b); u32 sign = x.sign ^ y.sign;
  if (x.cls == 3 || y.cls == 3) return H_NAN;
  if (x.cls == 2) return y.cls == 2 ? H_NAN : (u16)(sign << 15 | 0x7C00);
  if (y.cls == 2) return (u16)(sign << 15);
  if (x.cls == 0) return y.cls == 0 ? H_NAN : (u16)(sign << 15);
  if (y.cls == 0) return (u16)(sign << 15 | 0x7C00);
  int i = x.m < y.m;
  u32 num = x.m << (12 + i), den = y.m << 1;                      /* same scaling as the implementation so the divider is shared */
  u32 qq = REF_UDIV32(num, den), rr = REF_UREM32(num, den);
  return h_round_pack(sign, qq, x.e - y.e - 11 - i, rr != 0);
}
static u16 ref_fma(u16 a, u16 b, u16 c) {
  hunp x = h_unpack(a), y = h_unpack(b), z = h_unpack(c); u32 ps = x.sign ^ y.sign;
  if (x.cls == 3 || y.cls == 3 || z.cls == 3) return H_NAN;
  if (x.cls == 2 || y.cls == 2) {
    if (x.cls == 0 || y.cls == 0) return H_NAN;
    if (z.cls == 2 && z.sign != ps) return H_NAN;
    return (u16)(ps << 15 | 0x7C00);
  }
  if (z.cls == 2) return c;
  if (x.cls == 0 || y.cls == 0) { if (z.cls != 0) return c; return (u16)((ps & z.sign) << 15); }   /* (+-0) + (+-0): -0 only if both negative */
  u64 P = REF_MUL32(x.m, y.m); int pe = x.e + y.e;                /* exact product P*2^pe, 2^20 <= P < 2^22 */
  if (z.cls == 0) return h_round_pack(ps, P, pe, 0);
  /* align to the smaller exponent, clamped: beyond 40 bits of distance the small term is only a sticky bit */
  u64 A = P, B = z.m; int ae = pe, be = z.e; u32 as = ps, bs = z.sign;
  int sticky = 0, E;
  if (ae >= be) { int d = ae - be; if (d > 40) { A <<= 40; E = ae - 40; B = 0; sticky = 1; } else { A <<= d; E = be; } }
  else { int d = be - ae; if (d > 40) { B <<= 40; E = be - 40; A = 0; sticky = 1; } else { B <<= d; E = ae; } }
  /* when a term was reduced to a sticky bit it is non-zero but smaller than one unit of E */
  if (as == bs) return h_round_pack(as, A + B, E, sticky);
  if (A == B && !sticky) return 0;                               /* exact cancellation: +0 in round-to-nearest */
  if (A > B || (A == B)) {                                        /* |A| larger (B possibly reduced to sticky) */
    if (sticky && B == 0) return h_round_pack(as, A - 1, E, 1);   /* A - tiny */
    if (sticky && A == 0) return h_round_pack(bs, B - 1, E, 1);
    return h_round_pack(as, A - B, E, 0);
  }
  if (sticky && A == 0) return h_round_pack(bs, B - 1, E, 1);
  return h_round_pack(bs, B - A, E, 0);
}
static u16 ref_sqrt(u16 a) {
  hunp x = h_unpack(a);
  if (x.cls == 3) return H_NAN;
  if (x.cls == 0) return a;
  if (x.sign) return H_NAN;
  if (x.cls == 2) return a;
  /* value = m*2^e; make the exponent even and keep 24 extra bits: v = M*2^E, E even, root = isqrt(M)*2^(E/2) */
  u64 M = (u64)x.m << 24; int E = x.e - 24;
  if (E & 1) { M <<= 1; E -= 1; }
  u64 r = 0;                                                      /* integer square root, bit by bit (M < 2^36, r < 2^18) */
  for (int i = 17; i >= 0; i--) { u64 t = r | (1ULL << i); if (t * t <= M) r = t; }
  return h_round_pack(0, r, E / 2, r * r != M);
}
#endif
