// C08 wrappers: half conversions, arithmetic, comparison, classification on raw bit patterns.
// Software path (no -mf16c), HALF_ERRHANDLING off (both defaults of the baseline build without -march=native).
#include <cstdint>
#include <cstring>
#include <functional>
#include <xtl/xhalf_float.hpp>
using half_float::half;
#define W extern "C" __attribute__((noinline))
static_assert(sizeof(half) == 2, "half is 16 bits");
static_assert(std::numeric_limits<half>::round_style == std::round_to_nearest, "default rounding");
static inline half mk(uint16_t b) { half h; std::memcpy(&h, &b, 2); return h; }
static inline uint16_t bits(half h) { return h.get_data(); }
static inline float mkf(uint32_t b) { float f; std::memcpy(&f, &b, 4); return f; }
static inline uint32_t fbits(float f) { uint32_t b; std::memcpy(&b, &f, 4); return b; }
static inline double mkd(uint64_t b) { double f; std::memcpy(&f, &b, 8); return f; }
static inline uint64_t dbits(double f) { uint64_t b; std::memcpy(&b, &f, 8); return b; }

// conversions
W uint16_t w_f2h(uint32_t f) { return bits(half(mkf(f))); }
W uint16_t w_f2h_assign(uint32_t f) { half h; h = mkf(f); return bits(h); }
W uint16_t w_f2h_cast(uint32_t f) { return bits(half_float::half_cast<half>(mkf(f))); }
W uint16_t w_d2h_cast(uint64_t d) { return bits(half_float::half_cast<half>(mkd(d))); }
W uint16_t w_d2h_ctor(uint64_t d) { return bits(half(mkd(d))); }
W uint32_t w_h2f(uint16_t h) { return fbits(static_cast<float>(mk(h))); }
W uint32_t w_h2f_cast(uint16_t h) { return fbits(half_float::half_cast<float>(mk(h))); }
W uint64_t w_h2d_cast(uint16_t h) { return dbits(half_float::half_cast<double>(mk(h))); }
W uint64_t w_h2d(uint16_t h) { return dbits(static_cast<double>(mk(h))); }
W uint16_t w_i2h_cast(int32_t i) { return bits(half_float::half_cast<half>(i)); }
W uint16_t w_u2h_cast(uint32_t i) { return bits(half_float::half_cast<half>(i)); }
W uint16_t w_i2h_ctor(int32_t i) { return bits(half(i)); }
W int32_t w_h2i_cast(uint16_t h) { return half_float::half_cast<int>(mk(h)); }
W int32_t w_h2i_static(uint16_t h) { return static_cast<int>(mk(h)); }
W int64_t w_h2ll_cast(uint16_t h) { return half_float::half_cast<long long>(mk(h)); }
// arithmetic
W uint16_t w_add(uint16_t a, uint16_t b) { return bits(mk(a) + mk(b)); }
W uint16_t w_sub(uint16_t a, uint16_t b) { return bits(mk(a) - mk(b)); }
W uint16_t w_mul(uint16_t a, uint16_t b) { return bits(mk(a) * mk(b)); }
W uint16_t w_div(uint16_t a, uint16_t b) { return bits(mk(a) / mk(b)); }
W uint16_t w_fma(uint16_t a, uint16_t b, uint16_t c) { return bits(half_float::fma(mk(a), mk(b), mk(c))); }
W uint16_t w_sqrt(uint16_t a) { return bits(half_float::sqrt(mk(a))); }
W uint16_t w_addeq(uint16_t a, uint16_t b) { half x = mk(a); x += mk(b); return bits(x); }
W uint16_t w_subeq(uint16_t a, uint16_t b) { half x = mk(a); x -= mk(b); return bits(x); }
W uint16_t w_muleq(uint16_t a, uint16_t b) { half x = mk(a); x *= mk(b); return bits(x); }
W uint16_t w_diveq(uint16_t a, uint16_t b) { half x = mk(a); x /= mk(b); return bits(x); }
W uint64_t w_incdec(uint16_t a) { half x = mk(a), y = mk(a); half px = x++; half py = y--; half z = mk(a); ++z; half u = mk(a); --u;
    return (bits(px) == a && bits(py) == a && bits(x) == bits(z) && bits(y) == bits(u)) ? (1ull << 32 | (uint64_t)bits(z) << 16 | bits(u)) : 0; }
W uint16_t w_addf(uint16_t a, uint32_t f) { return bits(mk(a) + mkf(f)); }   // mixed: T converted to half first
W uint16_t w_neg(uint16_t a) { return bits(-mk(a)); }
W uint16_t w_pos(uint16_t a) { return bits(+mk(a)); }
W uint16_t w_fabs(uint16_t a) { return bits(half_float::fabs(mk(a))); }
W uint16_t w_abs(uint16_t a) { return bits(half_float::abs(mk(a))); }
W uint16_t w_copysign(uint16_t a, uint16_t b) { return bits(half_float::copysign(mk(a), mk(b))); }
// comparisons: bit0 == , 1 != , 2 < , 3 > , 4 <= , 5 >=, 6 isgreater 7 isgreaterequal 8 isless 9 islessequal 10 islessgreater 11 isunordered
W uint32_t w_cmp(uint16_t a, uint16_t b)
{
    half x = mk(a), y = mk(b);
    return (uint32_t)(x == y) | (uint32_t)(x != y) << 1 | (uint32_t)(x < y) << 2 | (uint32_t)(x > y) << 3 | (uint32_t)(x <= y) << 4 | (uint32_t)(x >= y) << 5 |
           (uint32_t)half_float::isgreater(x, y) << 6 | (uint32_t)half_float::isgreaterequal(x, y) << 7 | (uint32_t)half_float::isless(x, y) << 8 |
           (uint32_t)half_float::islessequal(x, y) << 9 | (uint32_t)half_float::islessgreater(x, y) << 10 | (uint32_t)half_float::isunordered(x, y) << 11;
}
W uint32_t w_cmpf(uint16_t a, uint32_t f) { half x = mk(a); float y = mkf(f); return (uint32_t)(x == y) | (uint32_t)(y < x) << 1; }
// classification: bit0 isfinite 1 isinf 2 isnan 3 isnormal 4 signbit ; bits 8.. fpclassify code: 0 zero 1 subnormal 2 normal 3 inf 4 nan 7 other
W uint32_t w_class(uint16_t a)
{
    half x = mk(a); int c = half_float::fpclassify(x);
    uint32_t cc = c == FP_ZERO ? 0 : c == FP_SUBNORMAL ? 1 : c == FP_NORMAL ? 2 : c == FP_INFINITE ? 3 : c == FP_NAN ? 4 : 7;
    return (uint32_t)half_float::isfinite(x) | (uint32_t)half_float::isinf(x) << 1 | (uint32_t)half_float::isnan(x) << 2 |
           (uint32_t)half_float::isnormal(x) << 3 | (uint32_t)half_float::signbit(x) << 4 | cc << 8;
}
W uint64_t w_hash(uint16_t a) { return std::hash<half>()(mk(a)); }
