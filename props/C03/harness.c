/* C03 harnesses.  Compiled per block type: -DBT=u8|u16|u32|u64 -DWB=8|16|32|64 -DT=u8|u16|u32|u64 -DNBMAX=<blocks>.
 * Model = array of bools (what a std::vector<bool> holds).  Views live in exact-size heap blocks of ceil(n/WB) blocks, so touching
 * caller memory outside the view's blocks is a cbmc bounds failure.  Pre-state: arbitrary block contents INCLUDING garbage in
 * the unused bits of the last block (the view constructor has to clear them), arbitrary size. */
#include "harness.h"
#include "gen.h"
#include <stdlib.h>
#define MAXBITS (NBMAX * WB)
#define CAT_(a, b, c) a##b##c
#define CAT(a, b, c) CAT_(a, b, c)
#define WF(op) CAT(w_, T, _##op)
#define NB(n) (((n) + WB - 1) / WB)
typedef struct { u64 n; u8 b[MAXBITS + WB]; } bm;     /* the model: n bools */

static BT* mkblocks(const BT* src, u64 nb) {     /* exact-size heap block (owning bitsets: source block ranges) */
  BT* p = (BT*)HALLOC(nb * sizeof(BT));
  for (u64 i = 0; i < NBMAX + 1; i++) if (i < nb) p[i] = src[i];
  return p;
}
/* caller memory of a view: [guard][NBMAX blocks][guard] of constant size; the view covers the first nb blocks after the guard, everything else
 * (the guards AND the caller's blocks beyond the view) must come back unchanged.  (An exact-size block of symbolic size made the
 * symbolic-index block accesses of the shift operators run out of memory in cbmc's array theory.) */
#define GUARDV ((BT)0xA5A5A5A5A5A5A5A5ULL)
static BT* mkview(const BT* src) {
  BT* mem = (BT*)HALLOC((NBMAX + 2) * sizeof(BT));
  mem[0] = GUARDV; mem[NBMAX + 1] = GUARDV;
  for (u64 i = 0; i < NBMAX; i++) mem[1 + i] = src[i];
  return mem + 1;
}
#define OUTSIDE_UNTOUCHED(p, src, n) do { VASSERT((p)[-1] == GUARDV && (p)[NBMAX] == GUARDV, "memory before and after the caller's blocks is untouched"); \
    for (u64 j_ = 0; j_ < NBMAX; j_++) if (j_ >= NB(n)) VASSERT((p)[j_] == (src)[j_], "caller blocks beyond the view are untouched"); } while (0)
static void model_of(bm* m, const BT* blocks, u64 n) {
  m->n = n;
  for (u64 i = 0; i < MAXBITS + WB; i++) m->b[i] = i < n ? (u8)((blocks[i / WB] >> (i % WB)) & 1) : 0;
}
static BT pack(const bm* m, u64 j) {   /* block j of the canonical representation (bits >= n are 0) */
  BT r = 0;
  for (u64 k = 0; k < WB; k++) if (j * WB + k < m->n && m->b[j * WB + k]) r |= (BT)((BT)1 << k);
  return r;
}
#define BLOCKS_EQ(p, M, what) do { for (u64 j_ = 0; j_ < NBMAX + 1; j_++) if (j_ < NB((M).n)) VASSERT((p)[j_] == pack(&(M), j_), what); } while (0)
#define DUMP_EQ(res, rs, M, what) do { VASSERT((rs)[0] == (M).n, what ": size()"); VASSERT((rs)[1] == NB((M).n), what ": block_count()"); BLOCKS_EQ(res, M, what ": bits (unused bits of the last block are zero)"); } while (0)
static u64 m_count(const bm* m) { u64 c = 0; for (u64 i = 0; i < MAXBITS; i++) if (i < m->n && m->b[i]) c++; return c; }
#define VIEW_PROLOGUE \
  IN(u64, n); IN_ARR(BT, src, NBMAX + 1); VASSUME(n <= MAXBITS); \
  BT* p = mkview(src); bm m; model_of(&m, src, n); i64 out[8] = {0, 0, 0, 0, 0, 0, 0, 0}; \
  WITNESS("garbage_in_unused_bits", n % WB != 0 && (src[n / WB] >> (n % WB)) != 0); WITNESS("empty", n == 0); WITNESS("multiple_of_width", n > 0 && n % WB == 0); WITNESS("several_blocks", NB(n) >= 2);
#define SECOND_VIEW(N2) IN_ARR(BT, src2, NBMAX + 1); BT* q = mkview(src2); bm m2; model_of(&m2, src2, (N2));

void h_obs(void) {
  VIEW_PROLOGUE;
  i64 rc = WF(obs)(p, n, (u64*)out);
  u64 c = m_count(&m);
  VASSERT(rc == 0 && (u64)out[0] == n && out[1] == (n == 0) && (u64)out[6] == NB(n) && out[7] == 0, "size, empty, block_count, data");
  VASSERT((u64)out[2] == c, "count() is the number of true bits");
  VASSERT(out[3] == (c != 0) && out[5] == (c == 0), "any()/none()");
  VASSERT(out[4] == (c == n), "all() (true for the empty bitset)");
  BLOCKS_EQ(p, m, "the view constructor leaves the covered bits and clears the unused ones");
  OUTSIDE_UNTOUCHED(p, src, n);
  HARNESS_END();
}
void h_get(void) {
  VIEW_PROLOGUE; IN(u64, i); VASSUME(i < n);
  i64 rc = WF(get)(p, n, i, (u64*)out);
  VASSERT(rc == 0, "element access succeeds");
  for (int k = 0; k < 6; k++) VASSERT(out[k] == m.b[i], "operator[] (const and non-const), *(begin()+i), begin()[i], cbegin, rbegin agree with bit i");
  OUTSIDE_UNTOUCHED(p, src, n);
  HARNESS_END();
}
void h_at(void) {
  VIEW_PROLOGUE; IN(u64, i); IN(u8, cst); VASSUME(cst < 2);
  i64 rc = cst ? WF(at_const)(p, n, i, (u64*)out) : WF(at)(p, n, i, (u64*)out);
#ifdef KF_EXCLUDE_KF_C03_1
  VASSUME(i < n || i >= NB(n) * WB);
#endif
#ifdef KF_ONLY_KF_C03_1
  VASSUME(i >= n && i < NB(n) * WB);
#endif
  if (i < n) VASSERT(rc == 0 && out[0] == m.b[i], "at(i) returns bit i");
  else VASSERT(rc == 2, "at(i) throws std::out_of_range exactly when i >= size()");
  WITNESS("at_size", i == n); WITNESS("between_size_and_capacity", i >= n && i < NB(n) * WB); WITNESS("huge", i > 0x7fffffffffffffffULL);
  OUTSIDE_UNTOUCHED(p, src, n);
  HARNESS_END();
}
void h_frontback(void) {
  VIEW_PROLOGUE; VASSUME(n > 0);
  i64 rc = WF(frontback)(p, n, (u64*)out);
  VASSERT(rc == 0 && out[0] == m.b[0] && out[1] == m.b[n - 1] && out[2] == m.b[0] && out[3] == m.b[n - 1], "front()/back()");
  OUTSIDE_UNTOUCHED(p, src, n);
  HARNESS_END();
}
void h_traverse(void) {
  VIEW_PROLOGUE;
  u8 seq[2 * MAXBITS + 2];
  i64 rc = WF(traverse)(p, n, seq, (u64*)out);
  VASSERT(rc == 0 && (u64)out[0] == n && (u64)out[1] == 2 * n && (u64)out[2] == 3 * n, "forward, reverse and range-for traversals visit size() elements");
  for (u64 i = 0; i < MAXBITS; i++) if (i < n) { VASSERT(seq[i] == m.b[i], "forward traversal visits the bits in order"); VASSERT(seq[n + i] == m.b[n - 1 - i], "reverse traversal visits the bits in reverse order"); }
  OUTSIDE_UNTOUCHED(p, src, n);
  HARNESS_END();
}
void h_eq(void) {
  VIEW_PROLOGUE; IN(u64, n2); VASSUME(n2 <= MAXBITS); SECOND_VIEW(n2);
  i64 rc = WF(eq)(p, n, q, n2, (u64*)out);
  int e = n == n2; for (u64 i = 0; i < MAXBITS; i++) if (i < n && m.b[i] != m2.b[i]) e = 0;
  VASSERT(rc == 0 && out[0] == e && out[1] == !e, "== holds exactly when sizes and all bits match (independently of garbage in unused bits); != is its negation");
  WITNESS("equal", e && n > 0); WITNESS("differ_only_in_garbage", e && n % WB != 0 && src[n / WB] != src2[n / WB]);
  OUTSIDE_UNTOUCHED(p, src, n);
  HARNESS_END();
}
/* ---- modifiers ---- */
void h_setall(void) {
  VIEW_PROLOGUE; IN(u8, which); VASSUME(which < 3);
  i64 rc = which == 0 ? WF(set_all)(p, n) : which == 1 ? WF(reset_all)(p, n) : WF(flip_all)(p, n);
  for (u64 i = 0; i < MAXBITS; i++) if (i < n) m.b[i] = which == 0 ? 1 : which == 1 ? 0 : !m.b[i];
  VASSERT(rc == 0, "set()/reset()/flip() succeed"); BLOCKS_EQ(p, m, "set()/reset()/flip() act on exactly the size() bits and keep the unused bits zero");
  OUTSIDE_UNTOUCHED(p, src, n);
  HARNESS_END();
}
void h_setpos(void) {
  VIEW_PROLOGUE; IN(u64, i); IN(u8, which); IN(u8, val); VASSUME(i < n && which < 4 && val < 2);
  i64 rc = which == 0 ? WF(set_pos)(p, n, i, val) : which == 1 ? WF(set_pos1)(p, n, i) : which == 2 ? WF(reset_pos)(p, n, i) : WF(flip_pos)(p, n, i);
  m.b[i] = which == 0 ? val : which == 1 ? 1 : which == 2 ? 0 : !m.b[i];
  VASSERT(rc == 0, "single bit modifiers succeed"); BLOCKS_EQ(p, m, "set(pos,val)/set(pos)/reset(pos)/flip(pos) change exactly bit pos");
  OUTSIDE_UNTOUCHED(p, src, n);
  HARNESS_END();
}
void h_shift(void) {
  VIEW_PROLOGUE; IN(u64, s); IN(u8, right); VASSUME(right < 2);
  i64 rc = right ? WF(shr_eq)(p, n, s) : WF(shl_eq)(p, n, s);
  bm r; r.n = n;
  for (u64 i = 0; i < MAXBITS + WB; i++) r.b[i] = 0;
  for (u64 i = 0; i < MAXBITS; i++) if (i < n) { if (right) r.b[i] = (s < n && i + s < n && i + s >= i) ? m.b[(i + s) < MAXBITS ? i + s : 0] : 0; else r.b[i] = (s <= i) ? m.b[i - (s <= i ? s : 0)] : 0; }
  VASSERT(rc == 0, "shift succeeds"); BLOCKS_EQ(p, r, "<<= moves bit i to i+s (>>= to i-s), vacated and out-of-range bits are zero, for every shift amount");
  WITNESS("shift_zero", s == 0 && n > 0); WITNESS("shift_lt_width", s > 0 && s < WB && n > WB); WITNESS("shift_eq_width", s == WB && n > WB); WITNESS("shift_multiple_plus", s > WB && s % WB != 0 && s < n);
  WITNESS("shift_ge_size", s >= n && n > 0); WITNESS("shift_huge", s > 0xffffffffffULL);
  OUTSIDE_UNTOUCHED(p, src, n);
  HARNESS_END();
}
void h_bitop_eq(void) {
  VIEW_PROLOGUE; SECOND_VIEW(n); IN(u8, which); VASSUME(which < 3);
  i64 rc = which == 0 ? WF(and_eq)(p, n, q) : which == 1 ? WF(or_eq)(p, n, q) : WF(xor_eq)(p, n, q);
  for (u64 i = 0; i < MAXBITS; i++) if (i < n) m.b[i] = which == 0 ? (m.b[i] & m2.b[i]) : which == 1 ? (m.b[i] | m2.b[i]) : (m.b[i] ^ m2.b[i]);
  VASSERT(rc == 0, "&= |= ^= succeed"); BLOCKS_EQ(p, m, "&= |= ^= combine bit by bit"); BLOCKS_EQ(q, m2, "the right operand is only canonicalised, not changed");
  OUTSIDE_UNTOUCHED(p, src, n);
  HARNESS_END();
}
void h_ref(void) {
  VIEW_PROLOGUE; IN(u64, i); IN(u64, j); IN(u8, which); IN(u8, val); VASSUME(i < n && j < n && which < 14 && val < 2);
  i64 rc = WF(ref)(p, n, i, which, val, j, (u64*)out);
  u8 old = m.b[i];
  switch (which) { case 0: case 6: case 7: case 9: case 12: case 13: m.b[i] = val; break; case 1: m.b[i] &= val; break; case 2: m.b[i] |= val; break; case 3: m.b[i] ^= val; break;
                   case 4: m.b[i] = !old; break; case 5: break; case 8: m.b[i] = m.b[j]; break; case 10: m.b[0] = val; break; default: m.b[n - 1] = val; break; }
  VASSERT(rc == 0, "proxy operations succeed");
  if (which == 5) VASSERT(out[0] == !old, "~reference is the negated bit");
  BLOCKS_EQ(p, m, "writes through element references, iterators and pointers-to-reference land in exactly that bit");
  OUTSIDE_UNTOUCHED(p, src, n);
  HARNESS_END();
}
/* ---- operators returning temporaries ---- */
void h_temp(void) {
  VIEW_PROLOGUE; SECOND_VIEW(n); IN(u64, s); IN(u8, which); VASSUME(which < 6);
  BT res[4] = {0, 0, 0, 0}; u64 rs[2] = {0, 0}; i64 rc; bm r; r.n = n;
  for (u64 i = 0; i < MAXBITS + WB; i++) r.b[i] = 0;
  switch (which) {
    case 0: rc = WF(shl)(p, n, s, res, rs); for (u64 i = 0; i < MAXBITS; i++) if (i < n) r.b[i] = (s <= i) ? m.b[i - (s <= i ? s : 0)] : 0; break;
    case 1: rc = WF(shr)(p, n, s, res, rs); for (u64 i = 0; i < MAXBITS; i++) if (i < n) r.b[i] = (s < n && i + s < n && i + s >= i) ? m.b[(i + s) < MAXBITS ? i + s : 0] : 0; break;
    case 2: rc = WF(not)(p, n, res, rs); for (u64 i = 0; i < MAXBITS; i++) if (i < n) r.b[i] = !m.b[i]; break;
    default: rc = WF(binop)(p, n, q, which - 3, res, rs);
             for (u64 i = 0; i < MAXBITS; i++) if (i < n) r.b[i] = which == 3 ? (m.b[i] & m2.b[i]) : which == 4 ? (m.b[i] | m2.b[i]) : (m.b[i] ^ m2.b[i]); break;
  }
  VASSERT(rc == 0, "operator succeeds"); DUMP_EQ(res, rs, r, "<< >> ~ & | ^ return the expected bitset");
  BLOCKS_EQ(p, m, "the operand of << >> ~ & | ^ is unchanged");
  OUTSIDE_UNTOUCHED(p, src, n);
  HARNESS_END();
}
/* ---- owning bitset ---- */
#define OWN_PROLOGUE \
  IN(u64, n); IN_ARR(BT, src, NBMAX + 1); VASSUME(n <= MAXBITS); \
  bm m; model_of(&m, src, n); BT canon[NBMAX + 1]; for (u64 j = 0; j < NBMAX + 1; j++) canon[j] = pack(&m, j); \
  BT* p = mkblocks(canon, NB(n)); BT res[4] = {0, 0, 0, 0}; u64 rs[3] = {0, 0, 0}; i64 out[8] = {0, 0, 0, 0, 0, 0, 0, 0}; bm r; r.n = 0; for (u64 i = 0; i < MAXBITS + WB; i++) r.b[i] = 0;
void h_o_ctor(void) {
  IN(u64, n); IN(u8, b); IN(u8, which); IN(u8, b1); IN(u8, b2); IN_ARR(BT, src, NBMAX + 1); VASSUME(n <= MAXBITS && b < 2 && b1 < 2 && b2 < 2 && which < 4);
  BT res[4] = {0, 0, 0, 0}; u64 rs[2] = {0, 0}; i64 rc; bm r;
  for (u64 i = 0; i < MAXBITS + WB; i++) r.b[i] = 0;
  switch (which) {
    case 0: rc = WF(o_ctor_nb)(n, b, res, rs); r.n = n; for (u64 i = 0; i < MAXBITS; i++) if (i < n) r.b[i] = b; break;
    case 1: rc = WF(o_ctor_n)(n, res, rs); r.n = n; break;
    case 2: { u64 nb = n % (NBMAX + 1); BT* bl = mkblocks(src, nb); rc = WF(o_ctor_blocks)(bl, nb, res, rs); model_of(&r, src, nb * WB); } break;
    default: rc = WF(o_ctor_il)(b, b1, b2, res, rs); r.n = 3; r.b[0] = b; r.b[1] = b1; r.b[2] = b2; break;
  }
  VASSERT(rc == 0, "constructor succeeds"); DUMP_EQ(res, rs, r, "constructors (count,value) (count) (block range) (initializer list)");
  WITNESS("count_value_true_partial_block", which == 0 && b && n % WB != 0);
  HARNESS_END();
}
void h_o_copy(void) {
  OWN_PROLOGUE; IN(u8, which); VASSUME(which < 4);
  i64 rc = WF(o_copy)(p, n, which, res, rs);
  VASSERT(rc == 0, "copy succeeds"); DUMP_EQ(res, rs, m, "copy construction, copy assignment, move construction and construction from a view keep the bit sequence");
  HARNESS_END();
}
void h_o_assign(void) {
  OWN_PROLOGUE; IN(u64, k); IN(u8, b); IN(u8, b1); IN(u8, which); IN_ARR(BT, src2, NBMAX + 1); VASSUME(k <= MAXBITS && b < 2 && b1 < 2 && which < 3);
  i64 rc;
  switch (which) {
    case 0: rc = WF(o_assign_nb)(p, n, k, b, res, rs); r.n = k; for (u64 i = 0; i < MAXBITS; i++) if (i < k) r.b[i] = b; break;
    case 1: { u64 nb = k % (NBMAX + 1); BT* bl = mkblocks(src2, nb); rc = WF(o_assign_blocks)(p, n, bl, nb, res, rs); model_of(&r, src2, nb * WB); } break;
    default: rc = WF(o_assign_il)(p, n, b, b1, res, rs); r.n = 2; r.b[0] = b; r.b[1] = b1; break;
  }
  VASSERT(rc == 0, "assign succeeds"); DUMP_EQ(res, rs, r, "assign(count,value) / assign(block range) / assign(initializer list) replace the contents");
  HARNESS_END();
}
void h_o_resize(void) {
  OWN_PROLOGUE; IN(u64, k); IN(u8, b); IN(u8, which); VASSUME(k <= MAXBITS && b < 2 && which < 2);
  i64 rc = which ? WF(o_resize1)(p, n, k, res, rs) : WF(o_resize)(p, n, k, b, res, rs);
  r.n = k; for (u64 i = 0; i < MAXBITS; i++) if (i < k) r.b[i] = i < n ? m.b[i] : (which ? 0 : b);
  VASSERT(rc == 0, "resize succeeds"); DUMP_EQ(res, rs, r, "resize keeps the existing bits and appends the given value");
  WITNESS("grow_true_from_partial_block", !which && b && k > n && n % WB != 0); WITNESS("grow_across_blocks", k > n && NB(k) > NB(n) && n % WB != 0); WITNESS("shrink", k < n); WITNESS("to_zero", k == 0 && n > 0);
  HARNESS_END();
}
void h_o_pushpop(void) {
  OWN_PROLOGUE; IN(u8, b); IN(u8, which); VASSUME(b < 2 && which < 3);
  i64 rc;
  if (which == 0) { VASSUME(n < MAXBITS); rc = WF(o_push)(p, n, b, res, rs); r = m; r.n = n + 1; r.b[n] = b; }
  else if (which == 1) { VASSUME(n > 0); rc = WF(o_pop)(p, n, res, rs); r = m; r.n = n - 1; r.b[n - 1] = 0; }
  else { rc = WF(o_clear)(p, n, res, rs); VASSERT(rs[2] == 1, "cleared bitset is empty"); }
  VASSERT(rc == 0, "push_back/pop_back/clear succeed"); DUMP_EQ(res, rs, r, "push_back appends, pop_back removes the last bit, clear empties");
  WITNESS("push_into_new_block", which == 0 && n % WB == 0); WITNESS("pop_frees_block", which == 1 && n % WB == 1);
  HARNESS_END();
}
void h_o_swap(void) {
  OWN_PROLOGUE; IN(u64, n2); IN_ARR(BT, src2, NBMAX + 1); VASSUME(n2 <= MAXBITS);
  bm m2; model_of(&m2, src2, n2); BT canon2[NBMAX + 1]; for (u64 j = 0; j < NBMAX + 1; j++) canon2[j] = pack(&m2, j);
  BT* q = mkblocks(canon2, NB(n2)); BT res2[4] = {0, 0, 0, 0}; u64 rs2[2] = {0, 0};
  i64 rc = WF(o_swap)(p, n, q, n2, res, rs, res2, rs2);
  VASSERT(rc == 0, "swap succeeds"); DUMP_EQ(res, rs, m2, "swap: first holds the second's bits"); DUMP_EQ(res2, rs2, m, "swap: second holds the first's bits");
  HARNESS_END();
}
/* short history: {flip, set, <<=k, >>=k} ; resize(m2, b) ; {flip, push_back(b), <<=k, nothing} ; then count/all/any/== and the raw blocks */
void h_o_history(void) {
  OWN_PROLOGUE; IN(u64, k); IN(u64, sz); IN(u8, b); IN(u8, op1); IN(u8, op2); VASSUME(sz < MAXBITS && b < 2 && op1 < 4 && op2 < 4 && k <= MAXBITS + 1);
  i64 rc = WF(o_history)(p, n, op1, sz, b, op2, k, res, rs, (u64*)out);
  bm a = m;
  for (u64 i = 0; i < MAXBITS; i++) if (i < n) a.b[i] = op1 == 0 ? !m.b[i] : op1 == 1 ? 1 : op1 == 2 ? (k <= i ? m.b[i - (k <= i ? k : 0)] : 0) : ((i + k < n) ? m.b[(i + k) < MAXBITS ? i + k : 0] : 0);
  bm c; c.n = sz; for (u64 i = 0; i < MAXBITS + WB; i++) c.b[i] = i < sz ? (i < n ? a.b[i] : b) : 0;
  bm d = c;
  if (op2 == 0) { for (u64 i = 0; i < MAXBITS; i++) if (i < sz) d.b[i] = !c.b[i]; }
  else if (op2 == 1) { d.n = sz + 1; d.b[sz] = b; }
  else if (op2 == 2) { for (u64 i = 0; i < MAXBITS; i++) if (i < sz) d.b[i] = k <= i ? c.b[i - (k <= i ? k : 0)] : 0; }
  u64 cnt = m_count(&d);
  VASSERT(rc == 0, "history succeeds"); DUMP_EQ(res, rs, d, "state after a three-operation history equals the bool-sequence model");
  VASSERT((u64)out[0] == cnt && out[1] == (cnt == d.n) && out[2] == (cnt != 0) && out[3] == 1, "count/all/any/== after the history do not depend on earlier contents");
  WITNESS("flip_then_grow", op1 == 0 && sz > n && n % WB != 0); WITNESS("grow_true_then_flip", b && sz > n && op2 == 0);
  HARNESS_END();
}
