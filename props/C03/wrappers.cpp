// C03 wrappers: xdynamic_bitset_view over caller memory and the owning xdynamic_bitset (real std::vector code), one set per block type.
// rc: 0 ok, 2 std::out_of_range, 3 other exception.  A view is constructed inside every wrapper (its constructor zeroes the unused
// bits of the last block IN CALLER MEMORY - that is part of the step being checked).
#include <cstdint>
#include <cstddef>
#include <stdexcept>
#include <xtl/xdynamic_bitset.hpp>
#define W extern "C" __attribute__((noinline)) int64_t
#define GUARD(...) try { __VA_ARGS__ return 0; } catch (std::out_of_range&) { return 2; } catch (...) { return 3; }
template <class B> static inline void dump(const xtl::xdynamic_bitset<B>& t, B* res, uint64_t* rsize, uint64_t cap)
{
    *rsize = t.size(); rsize[1] = t.block_count();
    for (std::size_t i = 0; i < t.block_count() && i < cap; ++i) res[i] = t.data()[i];
}
// fill an owning bitset with the given (already canonical) blocks
template <class B> static inline xtl::xdynamic_bitset<B> mk(const B* p, uint64_t n)
{
    xtl::xdynamic_bitset<B> x(n);
    for (std::size_t i = 0; i < x.block_count(); ++i) x.data()[i] = p[i];
    return x;
}
#define BITSET_WRAPPERS(B, T) \
typedef xtl::xdynamic_bitset_view<B> V##T; typedef xtl::xdynamic_bitset<B> O##T; \
/* ---- observers: out[0]=size [1]=empty [2]=count [3]=any [4]=all [5]=none [6]=block_count */ \
W w_##T##_obs(B* p, uint64_t n, int64_t* out) { GUARD(V##T v(p, n); const V##T& c = v; out[0] = c.size(); out[1] = c.empty(); out[2] = c.count(); out[3] = c.any(); out[4] = c.all(); out[5] = c.none(); out[6] = c.block_count(); out[7] = c.data() - p;) } \
W w_##T##_get(B* p, uint64_t n, uint64_t i, int64_t* out) { GUARD(V##T v(p, n); const V##T& c = v; out[0] = bool(v[i]); out[1] = bool(c[i]); out[2] = bool(*(v.begin() + i)); out[3] = bool(*(c.cbegin() + i)); out[4] = bool(v.begin()[i]); out[5] = bool(*(v.rbegin() + (n - 1 - i)));) } \
W w_##T##_at(B* p, uint64_t n, uint64_t i, int64_t* out) { GUARD(V##T v(p, n); out[0] = bool(v.at(i));) } \
W w_##T##_at_const(B* p, uint64_t n, uint64_t i, int64_t* out) { GUARD(V##T v(p, n); const V##T& c = v; out[0] = bool(c.at(i));) } \
W w_##T##_frontback(B* p, uint64_t n, int64_t* out) { GUARD(V##T v(p, n); const V##T& c = v; out[0] = bool(v.front()); out[1] = bool(v.back()); out[2] = bool(c.front()); out[3] = bool(c.back());) } \
/* full forward and reverse traversal: bit i of the traversal is written to seq[i] */ \
W w_##T##_traverse(B* p, uint64_t n, uint8_t* seq, int64_t* out) { GUARD(V##T v(p, n); uint64_t k = 0; for (auto it = v.begin(); it != v.end(); ++it) seq[k++] = *it; out[0] = k; \
    for (auto it = v.crbegin(); it != v.crend(); ++it) seq[k++] = *it; out[1] = k; for (bool b : static_cast<const V##T&>(v)) { (void)b; ++k; } out[2] = k;) } \
W w_##T##_eq(B* p, uint64_t n, B* q, uint64_t m, int64_t* out) { GUARD(V##T v(p, n); V##T u(q, m); out[0] = (v == u); out[1] = (v != u);) } \
/* ---- whole-set modifiers on the view (result is read back from caller memory) */ \
W w_##T##_set_all(B* p, uint64_t n) { GUARD(V##T v(p, n); v.set();) } \
W w_##T##_reset_all(B* p, uint64_t n) { GUARD(V##T v(p, n); v.reset();) } \
W w_##T##_flip_all(B* p, uint64_t n) { GUARD(V##T v(p, n); v.flip();) } \
W w_##T##_set_pos(B* p, uint64_t n, uint64_t i, uint64_t val) { GUARD(V##T v(p, n); v.set(i, val != 0);) } \
W w_##T##_set_pos1(B* p, uint64_t n, uint64_t i) { GUARD(V##T v(p, n); v.set(i);) } \
W w_##T##_reset_pos(B* p, uint64_t n, uint64_t i) { GUARD(V##T v(p, n); v.reset(i);) } \
W w_##T##_flip_pos(B* p, uint64_t n, uint64_t i) { GUARD(V##T v(p, n); v.flip(i);) } \
W w_##T##_shl_eq(B* p, uint64_t n, uint64_t s) { GUARD(V##T v(p, n); v <<= s;) } \
W w_##T##_shr_eq(B* p, uint64_t n, uint64_t s) { GUARD(V##T v(p, n); v >>= s;) } \
W w_##T##_and_eq(B* p, uint64_t n, B* q) { GUARD(V##T v(p, n); V##T u(q, n); v &= u;) } \
W w_##T##_or_eq(B* p, uint64_t n, B* q) { GUARD(V##T v(p, n); V##T u(q, n); v |= u;) } \
W w_##T##_xor_eq(B* p, uint64_t n, B* q) { GUARD(V##T v(p, n); V##T u(q, n); v ^= u;) } \
/* ---- element reference / iterator proxies: which selects the proxy operation, val its operand */ \
W w_##T##_ref(B* p, uint64_t n, uint64_t i, uint64_t which, uint64_t val, uint64_t j, int64_t* out) { GUARD(V##T v(p, n); bool b = val != 0; \
    switch (which) { case 0: v[i] = b; break; case 1: v[i] &= b; break; case 2: v[i] |= b; break; case 3: v[i] ^= b; break; case 4: v[i].flip(); break; \
      case 5: out[0] = ~v[i]; break; case 6: *(v.begin() + i) = b; break; case 7: { auto it = v.begin(); it += i; *it = b; } break; \
      case 8: v[i] = v[j]; break; case 9: v.at(i) = b; break; case 10: v.front() = b; break; case 11: v.back() = b; break; \
      case 12: { auto r = v[i]; auto pr = &r; *pr = b; } break; default: { auto it = v.rbegin(); it += (n - 1 - i); *it = b; } break; }) } \
/* ---- operators returning temporaries (owning bitsets): result dumped to res */ \
W w_##T##_shl(B* p, uint64_t n, uint64_t s, B* res, uint64_t* rs) { GUARD(V##T v(p, n); auto t = v << s; dump<B>(t, res, rs, 4);) } \
W w_##T##_shr(B* p, uint64_t n, uint64_t s, B* res, uint64_t* rs) { GUARD(V##T v(p, n); auto t = v >> s; dump<B>(t, res, rs, 4);) } \
W w_##T##_not(B* p, uint64_t n, B* res, uint64_t* rs) { GUARD(V##T v(p, n); auto t = ~v; dump<B>(t, res, rs, 4);) } \
W w_##T##_binop(B* p, uint64_t n, B* q, uint64_t which, B* res, uint64_t* rs) { GUARD(V##T v(p, n); V##T u(q, n); \
    if (which == 0) { auto t = v & u; dump<B>(t, res, rs, 4); } else if (which == 1) { auto t = v | u; dump<B>(t, res, rs, 4); } else { auto t = v ^ u; dump<B>(t, res, rs, 4); }) } \
/* ---- owning bitset: state given as canonical blocks p[0..ceil(n/w)), result dumped */ \
W w_##T##_o_ctor_nb(uint64_t n, uint64_t b, B* res, uint64_t* rs) { GUARD(O##T x(n, b != 0); dump<B>(x, res, rs, 4);) } \
W w_##T##_o_ctor_n(uint64_t n, B* res, uint64_t* rs) { GUARD(O##T x(n); dump<B>(x, res, rs, 4);) } \
W w_##T##_o_ctor_blocks(const B* p, uint64_t nb, B* res, uint64_t* rs) { GUARD(O##T x(p, p + nb); dump<B>(x, res, rs, 4);) } \
W w_##T##_o_ctor_il(uint64_t b0, uint64_t b1, uint64_t b2, B* res, uint64_t* rs) { GUARD(O##T x({b0 != 0, b1 != 0, b2 != 0}); dump<B>(x, res, rs, 4);) } \
W w_##T##_o_copy(const B* p, uint64_t n, uint64_t which, B* res, uint64_t* rs) { GUARD(O##T x = mk<B>(p, n); \
    if (which == 0) { O##T y(x); dump<B>(y, res, rs, 4); } else if (which == 1) { O##T y; y = x; dump<B>(y, res, rs, 4); } else if (which == 2) { O##T y(std::move(x)); dump<B>(y, res, rs, 4); } \
    else { B tmp[4]; for (std::size_t i = 0; i < x.block_count() && i < 4; ++i) tmp[i] = x.data()[i]; V##T v(tmp, n); O##T y(v); dump<B>(y, res, rs, 4); }) } \
W w_##T##_o_assign_nb(const B* p, uint64_t n, uint64_t m, uint64_t b, B* res, uint64_t* rs) { GUARD(O##T x = mk<B>(p, n); x.assign(m, b != 0); dump<B>(x, res, rs, 4);) } \
W w_##T##_o_assign_blocks(const B* p, uint64_t n, const B* q, uint64_t nb, B* res, uint64_t* rs) { GUARD(O##T x = mk<B>(p, n); x.assign(q, q + nb); dump<B>(x, res, rs, 4);) } \
W w_##T##_o_assign_il(const B* p, uint64_t n, uint64_t b0, uint64_t b1, B* res, uint64_t* rs) { GUARD(O##T x = mk<B>(p, n); x.assign({b0 != 0, b1 != 0}); dump<B>(x, res, rs, 4);) } \
W w_##T##_o_resize(const B* p, uint64_t n, uint64_t m, uint64_t b, B* res, uint64_t* rs) { GUARD(O##T x = mk<B>(p, n); x.resize(m, b != 0); dump<B>(x, res, rs, 4);) } \
W w_##T##_o_resize1(const B* p, uint64_t n, uint64_t m, B* res, uint64_t* rs) { GUARD(O##T x = mk<B>(p, n); x.resize(m); dump<B>(x, res, rs, 4);) } \
W w_##T##_o_clear(const B* p, uint64_t n, B* res, uint64_t* rs) { GUARD(O##T x = mk<B>(p, n); x.clear(); dump<B>(x, res, rs, 4); rs[2] = x.empty();) } \
W w_##T##_o_push(const B* p, uint64_t n, uint64_t b, B* res, uint64_t* rs) { GUARD(O##T x = mk<B>(p, n); x.push_back(b != 0); dump<B>(x, res, rs, 4);) } \
W w_##T##_o_pop(const B* p, uint64_t n, B* res, uint64_t* rs) { GUARD(O##T x = mk<B>(p, n); x.pop_back(); dump<B>(x, res, rs, 4);) } \
W w_##T##_o_swap(const B* p, uint64_t n, const B* q, uint64_t m, B* res, uint64_t* rs, B* res2, uint64_t* rs2) { GUARD(O##T x = mk<B>(p, n); O##T y = mk<B>(q, m); x.swap(y); dump<B>(x, res, rs, 4); dump<B>(y, res2, rs2, 4);) } \
/* a short history on the owning bitset: flip (or set) all, grow with value b, then count / compare - the unused-bit invariant across operations */ \
W w_##T##_o_history(const B* p, uint64_t n, uint64_t op1, uint64_t m, uint64_t b, uint64_t op2, uint64_t k, B* res, uint64_t* rs, int64_t* out) { GUARD(O##T x = mk<B>(p, n); \
    switch (op1) { case 0: x.flip(); break; case 1: x.set(); break; case 2: x <<= k; break; default: x >>= k; break; } \
    x.resize(m, b != 0); \
    switch (op2) { case 0: x.flip(); break; case 1: x.push_back(b != 0); break; case 2: x <<= k; break; default: break; } \
    out[0] = x.count(); out[1] = x.all(); out[2] = x.any(); O##T y(x); out[3] = (x == y); dump<B>(x, res, rs, 4);) }
BITSET_WRAPPERS(uint8_t, u8)
BITSET_WRAPPERS(uint16_t, u16)
BITSET_WRAPPERS(uint32_t, u32)
BITSET_WRAPPERS(uint64_t, u64)
