"""C03 - dynamic bitset and bitset view behave as a resizable sequence of bools."""
ID = 'C03'
CLAIM = ('xdynamic_bitset_view over exact-size caller memory (constructor included in the step: arbitrary garbage in unused bits) and owning xdynamic_bitset with the real std::vector code, block types '
         'uint8_t/16/32/64: observers, element/iterator/proxy access and writes, set/reset/flip, <<= >>= by every 64-bit amount, &= |= ^=, << >> ~ & | ^ temporaries, ==, at(); constructors, '
         'copy/move/from-view, assign x3, resize, clear, push_back/pop_back, swap and 3-operation histories against a bool-array model')
BOUNDS = {'quick': 'views: up to 3 blocks for uint8_t/uint16_t (24/48 bits), 2 blocks for uint32_t/uint64_t (64/128 bits); owning bitset (std::vector): uint8_t, up to 3 blocks, allocations of at most 8 blocks; all sizes within that, all bit patterns incl. garbage in unused bits, shift amounts full 64-bit',
          'thorough': 'views: up to 3 blocks for every block type (192 bits for uint64_t); owning bitset: uint8_t and uint16_t'}
NOT_COVERED = ['more blocks than the bound; custom allocators; reserve/capacity/max_size/get_allocator', 'operator&=/|=/^= with operands of different size (precondition)']
ASSUMPTIONS = ['preconditions: operator[]/set(pos)/reset(pos)/flip(pos)/front/back on valid positions, pop_back on a non-empty bitset, equal sizes for the binary bit operators; operator new never fails',
               'snprintf and the std::out_of_range constructor (message formatting of span::at) are inert stubs']
INERT = ['snprintf', '_ZNSt12out_of_rangeC[12]EPKc', '_ZNSt12out_of_rangeD[012]Ev', '_ZNSt13runtime_errorC[12]EPKc', '_ZNSt13runtime_errorD[012]Ev']
TYPES = [('u8', 8), ('u16', 16), ('u32', 32), ('u64', 64)]
VIEW_H = ['h_obs', 'h_get', 'h_at', 'h_frontback', 'h_traverse', 'h_eq', 'h_setall', 'h_setpos', 'h_shift', 'h_bitop_eq', 'h_ref', 'h_temp']
OWN_H = ['h_o_ctor', 'h_o_copy', 'h_o_assign', 'h_o_resize', 'h_o_pushpop', 'h_o_swap', 'h_o_history']


def nbmax(t, w, tier):
    return 3 if (tier == 'thorough' or w <= 16) else 2


def defs(t, w, tier):
    return ['BT=%s' % t, 'WB=%d' % w, 'T=%s' % t, 'NBMAX=%d' % nbmax(t, w, tier), 'RT_ALLOC_UNIT=%d' % (w // 8), 'RT_ALLOC_MAXK=%d' % (2 * nbmax(t, w, tier) + 2)]


def units(tier):
    tv = []
    for t, w in TYPES:
        for h in ('h_shift', 'h_o_resize', 'h_obs', 'h_o_history', 'h_ref'): tv.append((h, defs(t, w, tier)))
    return [Unit('bitset', 'wrappers.cpp', ['harness.c'], inert=INERT, rt=('verif_rt.c', 'libstdcxx_models.c'), tv=tv, tv_iters=3000)]


def obligations(tier):
    obs = []
    for t, w in TYPES:
        nb = nbmax(t, w, tier); bits = nb * w
        # owning bitset (real std::vector reallocation paths, minutes per obligation): uint8_t in the quick tier, uint8_t and uint16_t in the thorough tier
        own = OWN_H if (t == 'u8' or (tier == 'thorough' and t == 'u16')) else []
        if tier == 'quick': own = [h for h in own if h != 'h_o_history']   # histories are covered by the inductive step (canonical pre-state in, canonical post-state out); the explicit 3-operation history is a thorough-tier cross-check
        view = [h for h in VIEW_H if not (tier == 'quick' and w >= 32 and h == 'h_traverse')]   # full traversals of 64/128 bits take ~10 min: thorough tier
        for h in view + own:
            heavy = h in OWN_H or h in ('h_temp', 'h_shift', 'h_traverse')
            ob = Ob('%s/%s' % (t, h[2:]), 'bitset', h, defines=defs(t, w, tier), unwind=nb * (w // 8) + 3, mem_unwind=8 * (2 * nb + 2) + 4,
                    backend='cadical' if (w >= 32 and not heavy) else 'minisat', timeout=(3600 if h == 'h_o_history' else 1500) if heavy else None,
                    bound='<= %d blocks of %d bits, all sizes and patterns' % (nb, w), min_witnesses=1)
            ob.harness_unwind = 2 * bits + w + 6
            obs.append(ob)
    return obs
