/* C13 harnesses.  LEN is concrete per obligation; every byte is symbolic (0..255).  Inputs are exact-size heap
 * blocks, so a read outside the input is a cbmc bounds failure; the decode table is a stack object of the translated
 * function, so an index outside it is one too. */
#include "harness.h"
#include "gen.h"
#include <stdlib.h>
#ifndef LEN
#define LEN 4
#endif
static const char ALPHA[] = "ABCDEFGHIJKLMNOPQRSTUVWXYZabcdefghijklmnopqrstuvwxyz0123456789+/";
static u8* mkbuf(u64 len, const u8* bytes) {
  u8* b = (u8*)malloc(len + (len == 0));
#ifdef __CPROVER__
  __CPROVER_assume(b != 0);
#endif
  for (u64 i = 0; i < len; i++) b[i] = bytes[i];
  return b;
}
/* RFC 4648 section 4, by table: group i of three bytes -> four characters, '=' padding */
static u64 ref_encode(const u8* s, u64 n, u8* out) {
  u64 o = 0;
  for (u64 i = 0; i < n; i += 3) {
    u32 b0 = s[i], b1 = i + 1 < n ? s[i + 1] : 0, b2 = i + 2 < n ? s[i + 2] : 0;
    out[o++] = ALPHA[b0 >> 2];
    out[o++] = ALPHA[((b0 & 3) << 4) | (b1 >> 4)];
    out[o++] = i + 1 < n ? ALPHA[((b1 & 15) << 2) | (b2 >> 6)] : '=';
    out[o++] = i + 2 < n ? ALPHA[b2 & 63] : '=';
  }
  return o;
}
static int ref_val(u8 c) {   /* value of an alphabet character, -1 otherwise */
  if (c >= 'A' && c <= 'Z') return c - 'A';
  if (c >= 'a' && c <= 'z') return c - 'a' + 26;
  if (c >= '0' && c <= '9') return c - '0' + 52;
  if (c == '+') return 62;
  if (c == '/') return 63;
  return -1;
}
#define ENC (4 * ((LEN + 2) / 3))
#define OUTCAP (ENC + 8)
void h_encode(void) {
  IN_ARR(u8, bytes, LEN + 1);
  u8* src = mkbuf(LEN, bytes); u8 out[OUTCAP], ref[OUTCAP];
  u64 n = w_encode(src, LEN, out, OUTCAP);
  u64 e = ref_encode(bytes, LEN, ref);
  VASSERT(n == e && n == 4 * ((LEN + 2) / 3), "encoded length is 4*ceil(n/3)");
  for (u64 i = 0; i < e; i++) VASSERT(out[i] == ref[i], "base64encode is the RFC 4648 encoding with '=' padding");
  /* round trip: the encoder's output (its length is now known to be the constant ENC) is handed to the decoder as an exact-size block */
  u8 back[LEN + 4];
  u8* enc = mkbuf(ENC, out);
  u64 m = w_decode(enc, ENC, back, LEN + 4);
  VASSERT(m == LEN, "decode(encode(s)) has the length of s");
  for (u64 i = 0; i < LEN; i++) VASSERT(back[i] == bytes[i], "decode(encode(s)) == s");
  WITNESS("high_byte_and_nul", LEN >= 2 && bytes[0] >= 0x80 && bytes[1] == 0);
  WITNESS("slash_in_output", LEN >= 3 && out[3] == '/');
  HARNESS_END();
}
/* arbitrary input text: decode the longest leading run of alphabet characters, whole bytes only */
void h_decode(void) {
  IN_ARR(u8, text, LEN + 1);
  u8* src = mkbuf(LEN, text); u8 out[LEN + 4];
  u64 n = w_decode(src, LEN, out, LEN + 4);
  int v[LEN + 2]; u64 p = LEN;                                      /* values of the characters; p = length of the longest alphabet prefix */
  for (int i = LEN - 1; i >= 0; i--) { v[i] = ref_val(text[i]); if (v[i] < 0) p = (u64)i; }
  v[LEN] = 0; v[LEN + 1] = 0;
  u64 e = p * 6 / 8;
  VASSERT(n == e, "decoded length is the number of whole bytes in the longest alphabet prefix");
  for (u64 k = 0; k < (LEN * 6) / 8; k++) if (k < e) {               /* byte k = bits [8k, 8k+8) of the 6-bit stream: always two characters */
    u64 i0 = 8 * k / 6; u32 off = (u32)(8 * k % 6);
    u32 two = ((u32)v[i0] << 6) | (u32)v[i0 + 1];                     /* 12 bits */
    VASSERT(out[k] == ((two >> (4 - off)) & 0xFF), "decoded bytes are the bit stream of the alphabet prefix");
  }
  WITNESS("stops_at_padding", p < LEN && text[p] == '=' && p > 0);
  WITNESS("stops_at_high_byte", p < LEN && text[p] >= 0x80);
  WITNESS("truncated_tail", p == LEN && (LEN % 4) == 1 && LEN > 0);
  HARNESS_END();
}
