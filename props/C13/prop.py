"""C13 - base64 round-trips every byte string, matches RFC 4648, and is safe on any input."""
ID = 'C13'
CLAIM = ('base64encode/base64decode executed with the real std::string inline code: one solver query per input length with EVERY byte symbolic (0..255): '
         'encode == RFC 4648 table codec and decode(encode(s)) == s for lengths 0..7 (thorough 0..9); decode of arbitrary text (longest alphabet prefix, whole bytes '
         'only, no access outside the 256-entry table or the input) for text lengths 0..10 (thorough 0..20)')
BOUNDS = {'quick': 'encode/round-trip: input length 0..7, all byte values; decode: text length 0..10, all byte values; result strings never exceed the 15-character in-place capacity (asserted: reaching std::string reallocation fails the obligation)',
          'thorough': 'encode/round-trip: 0..9; decode: 0..20; same capacity bound'}
NOT_COVERED = ['inputs longer than the bounds: the int accumulator is shifted for ever and only bits below valb+8 are read - argued, not decided',
               'allocation failure (operator new is assumed to succeed)']
ASSUMPTIONS = ['std::string::_M_create/_M_mutate are modelled in rt/libstdcxx_models.c on the real object layout; every other std::string member is the inline libstdc++ code from the IR']
INERT = []


def units(tier):
    return [Unit('b64', 'wrappers.cpp', ['harness.c'], rt=('verif_rt.c', 'libstdcxx_models.c'),
                 tv=[('h_encode', ['LEN=5']), ('h_encode', ['LEN=7']), ('h_decode', ['LEN=7'])], tv_iters=20000)]


def obligations(tier):
    obs = []
    me, md = (7, 10) if tier == 'quick' else (9, 20)   # encoded text of 9 bytes = 12 characters, decoded text of 20 characters = 15 bytes: all results stay in place (<= 15)
    for L in range(me + 1):
        obs.append(Ob('encode/len%02d' % L, 'b64', 'h_encode', defines=['LEN=%d' % L, 'RT_STRING_NO_GROW'], unwind=4 * ((L + 2) // 3) + 6, mem_unwind=40, unwindset=['w_decode.1:66', '__verif_memset32.0:258'],
                      bound='len=%d, all bytes symbolic' % L, min_witnesses=1))
    for L in range(md + 1):
        obs.append(Ob('decode/len%02d' % L, 'b64', 'h_decode', defines=['LEN=%d' % L, 'RT_STRING_NO_GROW'], unwind=L + 4, mem_unwind=40, unwindset=['w_decode.1:66', '__verif_memset32.0:258'],
                      bound='text len=%d, all bytes symbolic' % L, min_witnesses=1))
    return obs
