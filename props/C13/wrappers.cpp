// C13 wrappers: base64 encode/decode through the real std::string interface.
// The input string is built from an exact-size caller block; the result is copied out with its length.
#include <cstdint>
#include <cstring>
#include <string>
#include <xtl/xbase64.hpp>
#define W extern "C" __attribute__((noinline))
W uint64_t w_encode(const uint8_t* in, uint64_t n, uint8_t* out, uint64_t cap)
{
    std::string s(reinterpret_cast<const char*>(in), n);
    std::string r = xtl::base64encode(s);
    for (uint64_t i = 0; i < r.size() && i < cap; ++i) out[i] = static_cast<uint8_t>(r[i]);
    return r.size();
}
W uint64_t w_decode(const uint8_t* in, uint64_t n, uint8_t* out, uint64_t cap)
{
    std::string s(reinterpret_cast<const char*>(in), n);
    std::string r = xtl::base64decode(s);
    for (uint64_t i = 0; i < r.size() && i < cap; ++i) out[i] = static_cast<uint8_t>(r[i]);
    return r.size();
}
