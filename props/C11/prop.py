"""C11 - optional/complex vectors keep parallel storages in lockstep, indexed alike."""
ID = 'C11'
CLAIM = ('xoptional_vector<int>, xoptional_array<int,3>, xcomplex_vector<double>, xcomplex_array<double,3> with the real std::vector and xdynamic_bitset code: every constructor, up to two resizes (all three forms), one write through a '
         'symbolic access path (operator[], at, iterator, reverse iterator, front/back, element proxies, underlying containers), then every element read through operator[], at, const iterator, reverse iterator and the '
         'underlying storages: equal lengths, pairwise coherence, defaults missing/zero, at() throws exactly for i >= size(), == / !=; growing resize of xoptional_vector<T> with a T whose constructors may throw (symbolic fault schedule): storages stay in lockstep')
BOUNDS = {'quick': 'sizes (after construction, after resize) in {0,1,2,3} x {0,1,2,3} minus a few, optionally a second resize; values in (-100000, 100000) resp. (-1000, 1000); one write',
          'thorough': 'all 16 size pairs and a second resize to every size 0..3'}
NOT_COVERED = ['sizes above 3 (more than one 64-bit flag block is covered by C03)', 'iterators of the array variants: xoptional_iterator/xcomplex_iterator do not compile over std::array (pointer iterators have no value_type member)',
               'initializer-list constructors of xcomplex_sequence; relational operators < <= > >= of xoptional_sequence']
ASSUMPTIONS = ['constructors taking a size are called with the container\'s own size for the array variants (as the property states)', 'snprintf / exception constructors are inert stubs']
INERT = ['snprintf', '_ZNSt12out_of_rangeC[12]EPKc', '_ZNSt12out_of_rangeD[012]Ev']


ALLOC = ['RT_ALLOC_UNIT=4', 'RT_ALLOC_MAXK=12']     # every vector allocation here is a multiple of 4 bytes up to 48: constant-size objects (see rt_alloc)


def pairs(tier):
    if tier == 'thorough': return [(a, b, c) for a in range(4) for b in range(4) for c in sorted({b, 0, 3} if True else {b})]
    return [(0, 0, 0), (0, 2, 2), (1, 3, 3), (2, 2, 2), (3, 1, 1), (3, 0, 0), (2, 3, 3), (3, 1, 3), (1, 2, 0)]


def units(tier):
    return [Unit('seq', 'wrappers.cpp', ['harness.c'], inert=INERT, rt=('verif_rt.c', 'libstdcxx_models.c'),
                 tv=[('h_optvec', ['N0=2', 'N1=3', 'N2=3']), ('h_cpxvec', ['N0=3', 'N1=1', 'N2=2']), ('h_optarr', []), ('h_cpxarr', []), ('h_at', ['N0=2']), ('h_eq', ['N0=2']), ('h_optvec_throw', ['N0=1', 'N1=3'])], tv_iters=5000)]


def obligations(tier):
    obs = []
    combos = [(0, 0, 0), (1, 1, 1), (2, 2, 2), (0, 2, 3), (1, 0, 4), (2, 1, 7), (0, 1, 8), (1, 2, 5), (2, 0, 6)]      # (constructor, resize form, access path): each appears with several size triples
    for k, (a, b, c) in enumerate(pairs(tier)):
        for h in ('h_optvec', 'h_cpxvec'):
          for cfg in ([combos[k % 9]] if tier == 'quick' else combos):
            d = ['N0=%d' % a, 'N1=%d' % b, 'N2=%d' % c, 'CTORFIX=%d' % cfg[0], 'RZFIX=%d' % cfg[1], 'PATHFIX=%d' % cfg[2]] + ALLOC
            ob = Ob('%s/%d_%d_%d/c%dr%dp%d' % ((h[2:], a, b, c) + cfg), 'seq', h, defines=d, unwind=8, mem_unwind=40, bound='sizes %d -> %d -> %d' % (a, b, c), timeout=900); ob.harness_unwind = 50; obs.append(ob)
    for h in ('h_optarr', 'h_cpxarr'):
        for (ct, pa) in [(0, 0), (0, 4), (1, 1), (1, 7), (2, 5), (2, 6), (0, 7), (1, 4)]:
            ob = Ob('%s/c%dp%d' % (h[2:], ct, pa), 'seq', h, defines=['CTORFIX=%d' % ct, 'RZFIX=0', 'PATHFIX=%d' % pa] + ALLOC, unwind=8, mem_unwind=40, bound='3 elements', timeout=600); ob.harness_unwind = 50; obs.append(ob)
    for n in (0, 1, 3):
        ob = Ob('at/size%d' % n, 'seq', 'h_at', defines=['N0=%d' % n] + ALLOC, unwind=8, mem_unwind=40, bound='size %d, any 64-bit index' % n, min_witnesses=2, timeout=900); ob.harness_unwind = 50; obs.append(ob)
        ob = Ob('eq/size%d' % n, 'seq', 'h_eq', defines=['N0=%d' % n] + ALLOC, unwind=8, mem_unwind=40, bound='size %d' % n, timeout=900); ob.harness_unwind = 50; obs.append(ob)
    for (a, b) in ((1, 3), (0, 2), (2, 3)):
        ob = Ob('throwing_element/%d_%d' % (a, b), 'seq', 'h_optvec_throw', defines=['N0=%d' % a, 'N1=%d' % b] + ALLOC, unwind=8, mem_unwind=40, bound='sizes %d -> %d, every fault schedule of element constructors' % (a, b), timeout=900); ob.harness_unwind = 50; obs.append(ob)
    return obs
