/* C11 harnesses.  N0, N1, N2 (sizes after construction, first and second resize) are concrete per obligation; constructor choice, resize form,
 * values, flags, the written index and the access paths are symbolic.  Model: two plain arrays + a length. */
#include "harness.h"
#include "gen.h"
#ifndef N0
#define N0 2
#endif
#ifndef N1
#define N1 3
#endif
#ifndef N2
#define N2 N1
#endif
#define MAXN 4
#ifdef CTORFIX
#define FIXCFG() do { ctor = CTORFIX; rz = RZFIX; path = PATHFIX; dowrite = 1; } while (0)   /* concrete constructor / resize form / access path per obligation */
#else
#define FIXCFG() ((void)0)
#endif
void h_optvec(void) {
  IN(u8, ctor); IN(i32, v0); IN(u8, f0); IN(u8, rz); IN(i32, v1); IN(u8, f1); IN(u8, dowrite); IN(u8, path); IN(u64, idx); IN(i32, wv); IN(u8, wf);
  FIXCFG();
  VASSUME(ctor < 3 && f0 < 2 && rz < 3 && f1 < 2 && dowrite < 2 && path < 9 && wf < 2 && v0 > -100000 && v0 < 100000 && v1 > -100000 && v1 < 100000 && wv > -100000 && wv < 100000);
  if (N2 == 0) dowrite = 0;
  if (dowrite) { VASSUME(N2 > 0 && idx < N2); if (path == 5) VASSUME(idx == 0); if (path == 6) VASSUME(idx == N2 - 1); }
  i64 out[28]; for (int i = 0; i < 28; i++) out[i] = -7777;
  i64 rc = w_optvec(N0, ctor, v0, f0, N1, rz, v1, f1, N2, dowrite, path, idx, wv, wf, (u64*)out);
  /* model */
  i32 mv[MAXN]; u8 mf[MAXN]; u64 n = N0;
  for (int i = 0; i < MAXN; i++) { mv[i] = v0; mf[i] = ctor == 0 ? 1 : f0; }
  for (u64 i = n; i < MAXN; i++) if (i >= N0 && i < N1) { mv[i] = rz == 0 ? 0 : v1; mf[i] = rz == 0 ? 0 : rz == 1 ? 1 : f1; }     /* elements created by the first resize */
  n = N1;
  for (u64 i = 0; i < MAXN; i++) if (i >= N1 && i < N2) { mv[i] = 0; mf[i] = 0; }                                             /* second resize: default = missing */
  n = N2;
  if (dowrite) { mv[idx] = wv; mf[idx] = wf; }
  VASSERT(rc == 0, "operations succeed");
  VASSERT((u64)out[0] == n && (u64)out[1] == n && (u64)out[2] == n && out[3] == (n == 0), "value and flag storages have the same length as size()");
  for (u64 i = 0; i < MAXN; i++) if (i < n) {
    i64 e = (i64)mv[i] * 2 + mf[i];
    if (rz == 0 && i >= N0 && i < N1 && !(dowrite && idx == i)) { VASSERT((out[4 + i] & 1) == 0 && (out[8 + i] & 1) == 0 && (out[12 + i] & 1) == 0 && (out[16 + i] & 1) == 0 && (out[20 + i] & 1) == 0, "elements created by resize(n) are missing"); }
    else if (i >= N1 && !(dowrite && idx == i)) { VASSERT((out[4 + i] & 1) == 0 && (out[20 + i] & 1) == 0, "elements created by resize(n) are missing"); }
    else { VASSERT(out[4 + i] == e, "operator[] reads (values[i], flags[i])"); VASSERT(out[8 + i] == e, "at() reads (values[i], flags[i])"); VASSERT(out[12 + i] == e, "const iterator reads (values[i], flags[i])");
           VASSERT(out[16 + i] == e, "reverse iterator reads (values[i], flags[i])"); VASSERT(out[20 + i] == e, "the underlying storages hold the pair at the same index"); }
  }
  if (n > 0) VASSERT((out[24] & 1) == (out[4] & 1) && (out[25] & 1) == (out[4 + n - 1] & 1) && out[26] == out[24] && out[27] == out[25], "front()/back() designate the first/last pair");
  WITNESS("written_through_reverse_iterator", dowrite && path == 3); WITNESS("resized_with_flag_false", rz == 2 && !f1 && N1 > N0);
  HARNESS_END();
}
#ifdef CTORFIX
#define FIXARR() do { ctor = CTORFIX; path = PATHFIX; dowrite = 1; } while (0)
#else
#define FIXARR() ((void)0)
#endif
void h_optarr(void) {
  IN(u8, ctor); IN(i32, v0); IN(u8, f0); IN(u8, dowrite); IN(u8, path); IN(u64, idx); IN(i32, wv); IN(u8, wf);
  FIXARR();
  VASSUME(ctor < 3 && f0 < 2 && dowrite < 2 && path < 9 && wf < 2 && idx < 3 && v0 > -100000 && v0 < 100000 && wv > -100000 && wv < 100000);
  if (path == 5) VASSUME(idx == 0); if (path == 6) VASSUME(idx == 2);
  i64 out[28]; for (int i = 0; i < 28; i++) out[i] = -7777;
  i64 rc = w_optarr(ctor, v0, f0, dowrite, path, idx, wv, wf, (u64*)out);
  VASSERT(rc == 0, "operations succeed");
  VASSERT(out[0] == 3 && out[1] == 3 && out[2] == 3, "array variant: value and flag storages both have the array's length");
  for (u64 i = 0; i < 3; i++) {
    if (dowrite && idx == i) { i64 e = (i64)wv * 2 + wf; VASSERT(out[4 + i] == e && out[8 + i] == e && out[20 + i] == e, "a write through any access path lands in exactly that pair"); }
    else if (ctor == 0) VASSERT((out[4 + i] & 1) == 0 && (out[20 + i] & 1) == 0, "default constructed elements are missing");
    else { i64 e = (i64)v0 * 2 + (ctor == 1 ? 1 : f0); VASSERT(out[4 + i] == e && out[8 + i] == e && out[20 + i] == e, "constructed elements carry the given value and flag"); }
  }
  HARNESS_END();
}
void h_at(void) {
  IN(u64, i); IN(u8, cst); IN(u8, kind); VASSUME(cst < 2 && kind < 3);
  i64 rc = kind == 0 ? w_opt_at(N0, i, cst) : kind == 1 ? w_optarr_at(i, cst) : w_cpx_at(N0, i, cst);
  u64 n = kind == 1 ? 3 : N0;
  VASSERT(rc == (i < n ? 0 : 2), "at(i) throws std::out_of_range exactly when i >= size()");
  WITNESS("at_size", i == n); WITNESS("huge", i > 0xffffffffffULL);
  HARNESS_END();
}
void h_eq(void) {
  IN(i32, v0); IN(u8, f0); IN(u8, diff); IN(u64, j); IN(u8, kind); VASSUME(f0 < 2 && diff < 4 && kind < 2 && v0 > -100000 && v0 < 100000);
  if (diff == 1 || diff == 2) VASSUME(N0 > 0 && j < N0);
  i64 out[2] = {-1, -1};
  i64 rc = kind == 0 ? w_opt_eq(N0, v0, f0, diff, j, (u64*)out) : w_cpx_eq(N0, (double)v0, (double)f0, diff, j, (u64*)out);
  VASSERT(rc == 0 && out[0] == (diff == 0) && out[1] == (diff != 0), "== holds exactly when sizes, values and flags (real and imaginary parts) all match; != is its negation");
  HARNESS_END();
}
void h_cpxvec(void) {
  IN(u8, ctor); IN(i32, r0); IN(i32, i0); IN(u8, rz); IN(i32, r1); IN(i32, i1); IN(u8, dowrite); IN(u8, path); IN(u64, idx); IN(i32, wr); IN(i32, wi);
  FIXCFG(); if (path > 7) path = 7;
  VASSUME(ctor < 4 && rz < 3 && dowrite < 2 && path < 8 && r0 > -1000 && r0 < 1000 && i0 > -1000 && i0 < 1000 && r1 > -1000 && r1 < 1000 && i1 > -1000 && i1 < 1000 && wr > -1000 && wr < 1000 && wi > -1000 && wi < 1000);
  if (N2 == 0) dowrite = 0;
  if (dowrite) { VASSUME(N2 > 0 && idx < N2); if (path == 5) VASSUME(idx == 0); if (path == 6) VASSUME(idx == N2 - 1); }
  double out[44]; i64 sz[4]; for (int i = 0; i < 44; i++) out[i] = -7777.0;
  i64 rc = w_cpxvec(N0, ctor, (double)r0, (double)i0, N1, rz, (double)r1, (double)i1, N2, dowrite, path, idx, (double)wr, (double)wi, out, (u64*)sz);
  double mr[MAXN], mi[MAXN]; u64 n = N2;
  for (u64 i = 0; i < MAXN; i++) { mr[i] = ctor == 0 ? 0.0 : (double)r0; mi[i] = ctor == 0 ? 0.0 : (double)i0; }
  for (u64 i = 0; i < MAXN; i++) if (i >= N0 && i < N1) { mr[i] = rz == 0 ? 0.0 : (double)r1; mi[i] = rz == 0 ? 0.0 : (double)i1; }
  for (u64 i = 0; i < MAXN; i++) if (i >= N1 && i < N2) { mr[i] = 0.0; mi[i] = 0.0; }
  if (dowrite) { mr[idx] = (double)wr; mi[idx] = (double)wi; }
  VASSERT(rc == 0, "operations succeed");
  VASSERT((u64)sz[0] == n && (u64)sz[1] == n && (u64)sz[2] == n && sz[3] == (n == 0), "real and imaginary storages have the same length as size()");
  for (u64 i = 0; i < MAXN; i++) if (i < n) for (int p = 0; p < 5; p++) {
    int base = p == 4 ? 32 : 8 * p;
    VASSERT(out[base + 2 * i] == mr[i] && out[base + 2 * i + 1] == mi[i], "operator[], at(), const iterator, reverse iterator and the underlying storages all read (real[i], imag[i]); new elements are zero or the given value");
  }
  if (n > 0) VASSERT(out[40] == mr[0] && out[41] == mi[0] && out[42] == mr[n - 1] && out[43] == mi[n - 1], "front()/back()");
  HARNESS_END();
}
void h_cpxarr(void) {
  IN(u8, ctor); IN(i32, r0); IN(i32, i0); IN(u8, dowrite); IN(u8, path); IN(u64, idx); IN(i32, wr); IN(i32, wi);
  FIXARR(); if (ctor > 1) ctor = 1; if (path > 7) path = 7;
  VASSUME(ctor < 2 && dowrite < 2 && path < 8 && idx < 3 && r0 > -1000 && r0 < 1000 && i0 > -1000 && i0 < 1000 && wr > -1000 && wr < 1000 && wi > -1000 && wi < 1000);
  if (path == 5) VASSUME(idx == 0); if (path == 6) VASSUME(idx == 2);
  double out[44]; i64 sz[4]; for (int i = 0; i < 44; i++) out[i] = -7777.0;
  i64 rc = w_cpxarr(ctor, (double)r0, (double)i0, dowrite, path, idx, (double)wr, (double)wi, out, (u64*)sz);
  VASSERT(rc == 0 && sz[0] == 3 && sz[1] == 3 && sz[2] == 3, "array variant: both storages have the array's length");
  for (u64 i = 0; i < 3; i++) {
    double er = (dowrite && idx == i) ? (double)wr : ctor == 0 ? 0.0 : (double)r0, ei = (dowrite && idx == i) ? (double)wi : ctor == 0 ? 0.0 : (double)i0;
    VASSERT(out[2 * i] == er && out[2 * i + 1] == ei && out[8 + 2 * i] == er && out[9 + 2 * i] == ei && out[32 + 2 * i] == er && out[33 + 2 * i] == ei, "elements are zero or the given value; a write lands in exactly that pair");
  }
  HARNESS_END();
}
/* resize of an xoptional_vector whose element construction may throw (fault schedule symbolic): both storages and size() agree afterwards */
static u8 g_sched[8]; static int g_k;
i32 hook_throw(i32 site) { (void)site; if (g_k < 8 && g_sched[g_k++]) return 1; return 0; }
void h_optvec_throw(void) {
  IN(u8, rz); IN_ARR(u8, sched, 8); VASSUME(rz < 4); for (int i = 0; i < 8; i++) { VASSUME(sched[i] < 2); g_sched[i] = sched[i]; } g_k = 0;
  i64 out[5] = {-7, -7, -7, -7, -7};
  w_optvec_throw(N0, N1, rz, (u64*)out);
  if (out[4] == 2) {
    VASSERT(out[0] == out[1] && out[1] == out[2], "value storage, flag storage and size() have the same length after a resize, also when an element constructor threw");
    if (!out[3]) VASSERT(out[0] == N1, "a resize that does not throw yields the requested size");
  }
  WITNESS("resize_threw", out[4] == 2 && out[3] == 1);
  HARNESS_END();
}
