// C11 wrappers: xoptional_vector/array and xcomplex_vector/array: constructor, resize, one write through a chosen access path, then every element read through
// four paths plus the underlying storages.  Sizes are concrete per obligation (passed as constants by the harness), values/flags/choices symbolic.
#include <cstdint>
#include <stdexcept>
#include <complex>
#include <xtl/xoptional_sequence.hpp>
#include <xtl/xcomplex_sequence.hpp>
#define W extern "C" __attribute__((noinline)) int64_t
#define GUARD(...) try { __VA_ARGS__ return 0; } catch (std::out_of_range&) { return 2; } catch (...) { return 3; }
typedef xtl::xoptional_vector<int> OV; typedef xtl::xoptional_array<int, 3> OA; typedef xtl::xcomplex_vector<double> CV; typedef xtl::xcomplex_array<double, 3> CA;
template <class P> static inline int64_t enc(const P& p) { return static_cast<int64_t>(p.value()) * 2 + (p.has_value() ? 1 : 0); }
// out layout: [0] size [1] value().size() [2] has_value().size() [3] empty ; then 5 read paths x 4 slots starting at 4: operator[], at(), const iterator, reverse iterator (slot i = element i), underlying storages
template <bool ITER, class C> struct iter_paths;
template <bool ITER = true, class C> static inline void dump_opt(C& c, int64_t* out)
{
    const C& k = c; std::size_t n = c.size();
    out[0] = n; out[1] = c.value().size(); out[2] = c.has_value().size(); out[3] = c.empty();
    for (std::size_t i = 0; i < n && i < 4; ++i) { out[4 + i] = enc(c[i]); out[8 + i] = enc(k.at(i)); out[20 + i] = static_cast<int64_t>(c.value()[i]) * 2 + (c.has_value()[i] ? 1 : 0); }
    iter_paths<ITER, C>::read(c, out);
    if (n > 0) { out[24] = enc(c.front()); out[25] = enc(c.back()); out[26] = enc(k.front()); out[27] = enc(k.back()); }
}
template <class C> struct iter_paths<true, C> {
    static void read(C& c, int64_t* out) { const C& k = c; std::size_t n = c.size(); std::size_t j = 0; for (auto it = k.cbegin(); it != k.cend() && j < 4; ++it, ++j) out[12 + j] = enc(*it);
        j = 0; for (auto it = c.rbegin(); it != c.rend() && j < 4; ++it, ++j) out[16 + (n - 1 - j)] = enc(*it); }
    static void write(C& c, uint64_t path, uint64_t i, const xtl::xoptional<int>& o) { if (path == 2) *(c.begin() + i) = o; else if (path == 3) *(c.rbegin() + (c.size() - 1 - i)) = o; else { auto it = c.begin(); it += i; (*it) = o; } } };
// the iterators of xoptional_array do not compile (xoptional_iterator needs ITV::value_type, std::array's iterator is a pointer): its iterator paths are replaced by operator[]
template <class C> struct iter_paths<false, C> {
    static void read(C& c, int64_t* out) { for (std::size_t i = 0; i < c.size() && i < 4; ++i) { out[12 + i] = enc(c[i]); out[16 + i] = enc(c[i]); } }
    static void write(C& c, uint64_t, uint64_t i, const xtl::xoptional<int>& o) { c[i] = o; } };
template <bool ITER = true, class C> static inline void write_opt(C& c, uint64_t path, uint64_t i, int v, bool f)
{
    xtl::xoptional<int> o(v, f);
    switch (path) { case 0: c[i] = o; break; case 1: c.at(i) = o; break; case 2: case 3: iter_paths<ITER, C>::write(c, path, i, o); break;
        case 4: c.value()[i] = v; c.has_value()[i] = f; break; case 5: c.front() = o; break; case 6: c.back() = o; break; case 7: c[i].value() = v; c[i].has_value() = f; break; default: iter_paths<ITER, C>::write(c, 8, i, o); break; }
}
W w_optvec(uint64_t n0, uint64_t ctor, int32_t v0, uint64_t f0, uint64_t n1, uint64_t rz, int32_t v1, uint64_t f1, uint64_t n2, uint64_t dowrite, uint64_t path, uint64_t idx, int32_t wv, uint64_t wf, int64_t* out)
{
    GUARD(OV c = ctor == 0 ? OV(n0, v0) : ctor == 1 ? OV(n0, xtl::xoptional<int>(v0, f0 != 0)) : OV();
          if (ctor == 2) c.resize(n0, xtl::xoptional<int>(v0, f0 != 0));
          if (rz == 0) c.resize(n1); else if (rz == 1) c.resize(n1, v1); else c.resize(n1, xtl::xoptional<int>(v1, f1 != 0));
          if (n2 != n1) c.resize(n2);
          if (dowrite) write_opt(c, path, idx, wv, wf != 0);
          dump_opt(c, out);)
}
W w_optarr(uint64_t ctor, int32_t v0, uint64_t f0, uint64_t dowrite, uint64_t path, uint64_t idx, int32_t wv, uint64_t wf, int64_t* out)
{
    GUARD(if (ctor == 0) { OA c; if (dowrite) write_opt<false>(c, path, idx, wv, wf != 0); dump_opt<false>(c, out); }
          else if (ctor == 1) { OA c(3, v0); if (dowrite) write_opt<false>(c, path, idx, wv, wf != 0); dump_opt<false>(c, out); }
          else { OA c(3, xtl::xoptional<int>(v0, f0 != 0)); if (dowrite) write_opt<false>(c, path, idx, wv, wf != 0); dump_opt<false>(c, out); })
}
W w_opt_at(uint64_t n0, uint64_t i, uint64_t cst) { GUARD(OV c(n0, 7); const OV& k = c; if (cst) (void)k.at(i).value(); else (void)c.at(i).value();) }
W w_optarr_at(uint64_t i, uint64_t cst) { GUARD(OA c(3, 7); const OA& k = c; if (cst) (void)k.at(i).value(); else (void)c.at(i).value();) }
// equality: second container equals the first except for one chosen difference (0 none, 1 a value, 2 a flag, 3 the size)
W w_opt_eq(uint64_t n0, int32_t v0, uint64_t f0, uint64_t diff, uint64_t j, int64_t* out)
{
    GUARD(OV a(n0, xtl::xoptional<int>(v0, f0 != 0)); OV b(a);
          if (diff == 1) b.value()[j] = v0 + 1; else if (diff == 2) b.has_value()[j] = !(f0 != 0); else if (diff == 3) b.resize(n0 + 1, xtl::xoptional<int>(v0, f0 != 0));
          out[0] = (a == b); out[1] = (a != b);)
}
// ---- complex containers: element i as (re, im) doubles ----
template <bool ITER = true, class C> static inline void dump_cpx(C& c, double* out, int64_t* sz)
{
    const C& k = c; std::size_t n = c.size();
    sz[0] = n; sz[1] = c.real().size(); sz[2] = c.imag().size(); sz[3] = c.empty();
    for (std::size_t i = 0; i < n && i < 4; ++i) { out[2 * i] = c[i].real(); out[2 * i + 1] = c[i].imag(); out[8 + 2 * i] = k.at(i).real(); out[9 + 2 * i] = k.at(i).imag(); out[32 + 2 * i] = c.real()[i]; out[33 + 2 * i] = c.imag()[i]; }
    if constexpr (ITER) { std::size_t j = 0; for (auto it = k.cbegin(); it != k.cend() && j < 4; ++it, ++j) { out[16 + 2 * j] = (*it).real(); out[17 + 2 * j] = (*it).imag(); }
    j = 0; for (auto it = c.rbegin(); it != c.rend() && j < 4; ++it, ++j) { out[24 + 2 * (n - 1 - j)] = (*it).real(); out[25 + 2 * (n - 1 - j)] = (*it).imag(); } }
    else { for (std::size_t i = 0; i < n && i < 4; ++i) { out[16 + 2 * i] = out[24 + 2 * i] = c[i].real(); out[17 + 2 * i] = out[25 + 2 * i] = c[i].imag(); } }   /* array iterators do not compile */
    if (n > 0) { out[40] = c.front().real(); out[41] = c.front().imag(); out[42] = k.back().real(); out[43] = k.back().imag(); }
}
template <bool ITER = true, class C> static inline void write_cpx(C& c, uint64_t path, uint64_t i, double re, double im)
{
    xtl::xcomplex<double> z(re, im);
    switch (path) { case 0: c[i] = z; break; case 1: c.at(i) = z; break; case 2: if constexpr (ITER) *(c.begin() + i) = z; else c[i] = z; break; case 3: if constexpr (ITER) *(c.rbegin() + (c.size() - 1 - i)) = z; else c[i] = z; break;
        case 4: c.real()[i] = re; c.imag()[i] = im; break; case 5: c.front() = z; break; case 6: c.back() = z; break; default: c[i].real() = re; c[i].imag() = im; break; }
}
W w_cpxvec(uint64_t n0, uint64_t ctor, double re0, double im0, uint64_t n1, uint64_t rz, double re1, double im1, uint64_t n2, uint64_t dowrite, uint64_t path, uint64_t idx, double wre, double wim, double* out, int64_t* sz)
{
    GUARD(CV c = ctor == 0 ? CV(n0) : ctor == 1 ? CV(n0, std::complex<double>(re0, im0)) : ctor == 2 ? CV(n0, xtl::xcomplex<double>(re0, im0)) : CV();
          if (ctor == 3) c.resize(n0, std::complex<double>(re0, im0));
          if (rz == 0) c.resize(n1); else if (rz == 1) c.resize(n1, std::complex<double>(re1, im1)); else c.resize(n1, xtl::xcomplex<double>(re1, im1));
          if (n2 != n1) c.resize(n2);
          if (dowrite) write_cpx(c, path, idx, wre, wim);
          dump_cpx(c, out, sz);)
}
W w_cpxarr(uint64_t ctor, double re0, double im0, uint64_t dowrite, uint64_t path, uint64_t idx, double wre, double wim, double* out, int64_t* sz)
{
    GUARD(if (ctor == 0) { CA c(3); if (dowrite) write_cpx<false>(c, path, idx, wre, wim); dump_cpx<false>(c, out, sz); }
          else { CA c(3, std::complex<double>(re0, im0)); if (dowrite) write_cpx<false>(c, path, idx, wre, wim); dump_cpx<false>(c, out, sz); })
}
W w_cpx_at(uint64_t n0, uint64_t i, uint64_t cst) { GUARD(CV c(n0); const CV& k = c; if (cst) (void)k.at(i).real(); else (void)c.at(i).real();) }
W w_cpx_eq(uint64_t n0, double re0, double im0, uint64_t diff, uint64_t j, int64_t* out)
{
    GUARD(CV a(n0, std::complex<double>(re0, im0)); CV b(a);
          if (diff == 1) b.real()[j] = re0 + 1; else if (diff == 2) b.imag()[j] = im0 + 1; else if (diff == 3) b.resize(n0 + 1, std::complex<double>(re0, im0));
          out[0] = (a == b); out[1] = (a != b);)
}
// ---- element type whose construction can fail: a resize that exits with an exception must leave value and flag storages in lockstep ----
extern "C" int32_t hook_throw(int32_t site);
struct TErr {};
struct TP { int v; TP() : v(0) { if (hook_throw(1)) throw TErr(); } TP(int x) : v(x) {} TP(const TP& o) : v(o.v) { if (hook_throw(2)) throw TErr(); } TP(TP&& o) noexcept : v(o.v) {}
            TP& operator=(const TP& o) { v = o.v; return *this; } TP& operator=(TP&& o) noexcept { v = o.v; return *this; } };
typedef xtl::xoptional_vector<TP> OVT;
W w_optvec_throw(uint64_t n0, uint64_t n1, uint64_t rz, int64_t* out)
{
    out[4] = 0;
    try {
        OVT c; c.resize(n0, TP(5));       // may itself fail: then the container is destroyed unobserved
        out[4] = 1;
        int threw = 0;
        try { if (rz == 0) c.resize(n1); else if (rz == 1) c.resize(n1, TP(7)); else c.resize(n1, xtl::xoptional<TP>(TP(9), rz == 2)); }
        catch (TErr&) { threw = 1; }
        out[0] = static_cast<int64_t>(c.size()); out[1] = static_cast<int64_t>(c.value().size()); out[2] = static_cast<int64_t>(c.has_value().size()); out[3] = threw;
        out[4] = 2;
    } catch (TErr&) {}
    return 0;
}
