/* Reference model of [basic.string] on (len, chars[]) with capacity CAP ("a std::basic_string bounded by N").
 * Characters are held as u32 and compared as unsigned values (char_traits<char>::compare is memcmp; char16_t is unsigned).
 * Every function returns 0 (ok), 1 (std::length_error: result would be longer than CAP) or 2 (std::out_of_range) and,
 * like std::basic_string, leaves the model untouched when it does not return 0.  The model is validated natively on
 * every run against std::basic_string itself (translation-validation vectors, see harness.c oracle self-check). */
#ifndef SPEC_STRING_H
#define SPEC_STRING_H
#ifndef CAP
#error "CAP (capacity N of the configuration) must be defined"
#endif
#define NPOS 0xFFFFFFFFFFFFFFFFULL
typedef struct { u64 len; u32 c[CAP + 2]; } mstr;
#define R_OK 0
#define R_LEN 1
#define R_RANGE 2
static u64 m_min(u64 a, u64 b) { return a < b ? a : b; }

/* the one mutating primitive: replace [pos, pos+n1) by src[0, n2) */
static int m_replace(mstr* m, u64 pos, u64 n1, const u32* src, u64 n2) {
  if (pos > m->len) return R_RANGE;
  n1 = m_min(n1, m->len - pos);
  u64 rest = m->len - n1;
  if (n2 > CAP || rest + n2 > CAP) return R_LEN;
  u64 newlen = rest + n2, tail = m->len - pos - n1;
  u32 tmp[CAP + 2];
  for (u64 i = 0; i < CAP + 1; i++) tmp[i] = i < tail ? m->c[pos + n1 + i] : 0;
  for (u64 i = 0; i < CAP + 1; i++) if (i < n2) m->c[pos + i] = src[i];
  for (u64 i = 0; i < CAP + 1; i++) if (i < tail) m->c[pos + n2 + i] = tmp[i];
  m->len = newlen; m->c[newlen] = 0;
  return R_OK;
}
static int m_replace_fill(mstr* m, u64 pos, u64 n1, u64 n2, u32 ch) {
  if (pos > m->len) return R_RANGE;
  n1 = m_min(n1, m->len - pos);
  if (n2 > CAP || m->len - n1 + n2 > CAP) return R_LEN;
  u32 f[CAP + 2]; for (u64 i = 0; i < CAP + 1; i++) f[i] = ch;
  return m_replace(m, pos, n1, f, n2);
}
/* sub-range [pos, pos+min(cnt, len-pos)) of another string; out_of_range if pos > len */
static int m_sub(const mstr* o, u64 pos, u64 cnt, u32* dst, u64* n) {
  if (pos > o->len) return R_RANGE;
  *n = m_min(cnt, o->len - pos);
  for (u64 i = 0; i < CAP + 1; i++) dst[i] = i < *n ? o->c[pos + i] : 0;
  return R_OK;
}
static int m_cmp(const u32* a, u64 na, const u32* b, u64 nb) {   /* sign of lexicographic comparison */
  u64 n = m_min(na, nb);
  for (u64 i = 0; i < CAP + 1; i++) if (i < n && a[i] != b[i]) return a[i] < b[i] ? -1 : 1;
  return na < nb ? -1 : na > nb ? 1 : 0;
}
static int m_compare(const mstr* m, u64 pos, u64 cnt, const u32* s, u64 n, int* res) {
  if (pos > m->len) return R_RANGE;
  u64 r = m_min(cnt, m->len - pos);
  *res = m_cmp(m->c + pos, r, s, n); return R_OK;
}
static int m_match(const mstr* m, u64 at, const u32* s, u64 n) {
  for (u64 j = 0; j < CAP + 1; j++) if (j < n && m->c[at + j] != s[j]) return 0;
  return 1;
}
static u64 m_find(const mstr* m, const u32* s, u64 pos, u64 n) {
  if (n == 0) return pos <= m->len ? pos : NPOS;
  for (u64 i = 0; i < CAP + 1; i++) if (i >= pos && i < m->len && n <= m->len - i && m_match(m, i, s, n)) return i;
  return NPOS;
}
static u64 m_rfind(const mstr* m, const u32* s, u64 pos, u64 n) {
  if (n > m->len) return NPOS;
  u64 start = m_min(m->len - n, pos);
  for (u64 k = 0; k < CAP + 1; k++) { if (k > start) break; u64 i = start - k; if (m_match(m, i, s, n)) return i; }
  return NPOS;
}
static int m_in(u32 ch, const u32* s, u64 n) { for (u64 j = 0; j < CAP + 1; j++) if (j < n && s[j] == ch) return 1; return 0; }
static u64 m_find_first(const mstr* m, const u32* s, u64 pos, u64 n, int want_in) {
  for (u64 i = 0; i < CAP + 1; i++) if (i >= pos && i < m->len && m_in(m->c[i], s, n) == want_in) return i;
  return NPOS;
}
static u64 m_find_last(const mstr* m, const u32* s, u64 pos, u64 n, int want_in) {
  if (m->len == 0) return NPOS;
  u64 start = m_min(m->len - 1, pos);
  for (u64 k = 0; k < CAP + 1; k++) { if (k > start) break; u64 i = start - k; if (m_in(m->c[i], s, n) == want_in) return i; }
  return NPOS;
}
#endif
