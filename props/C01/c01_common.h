/* Common part of the generated C01/C02 harnesses (one harness function per operation, see optable.py).
 * Compile-time parameters: CAP (capacity N), OBJSZ (sizeof the object), TP (1 throwing policy, 0 silent), CS (bytes per character),
 * SMAX (bound on argument strings).  Assertions are tagged "C01:" (functional equivalence with the [basic.string] model when the
 * result fits) or "C02:" (exception class, nothing changed after a failed operation); cbmc's own memory-safety properties on the
 * exact-size heap objects (object, second object, argument string, result) decide "stays inside its buffer / reads only its arguments". */
#include "harness.h"
#include "gen.h"
#include <stdlib.h>
#if CS == 2
typedef u16 CHT;
#define CHMASK 0xFFFFu
#else
typedef u8 CHT;
#define CHMASK 0xFFu
#endif
#include "spec_string.h"
#define GETC(p, i) ((u32)((CHT*)(p))[i])

static u8* c01_alloc(u64 n) {
  u8* p = (u8*)malloc(n ? n : 1);
#ifdef __CPROVER__
  __CPROVER_assume(p != 0);
#endif
  return p;
}
/* an object in an exact-size heap block: arbitrary previous bytes, then the real constructor + assign(ptr, len) */
static u8* c01_mkobj(const u8* stale, const CHT* chars, u64 len) {
  u8* o = c01_alloc(OBJSZ);
  for (u64 i = 0; i < OBJSZ; i++) o[i] = stale[i];
  i64 rc = w_init(o, (const u8*)chars, len);
  VASSERT(rc == 0, "C01: a string of length <= N can be constructed and assigned");
  return o;
}
static void c01_model(mstr* m, const CHT* chars, u64 len) {
  m->len = len; for (u64 i = 0; i < CAP + 2; i++) m->c[i] = i < len ? chars[i] : 0;
}
#define STATE_EQ(TAG, p, M, what) do { \
    VASSERT((u64)w_size(p) == (M).len, TAG what ": size()"); \
    for (u64 i_ = 0; i_ < CAP + 1; i_++) if (i_ < (M).len) VASSERT(GETC(p, i_) == (M).c[i_], TAG what ": characters"); \
    if ((M).len <= CAP) VASSERT(GETC(p, (M).len) == 0, TAG what ": NUL at data()[size()]"); } while (0)

/* the strlen-sized (numpy compatible) layout has no length field: a NUL character IS the end of the string, so strings with
 * embedded NULs are not representable in it by design; that configuration is checked on NUL-free characters */
#ifdef NONUL
#define NONUL_ASSUMPTIONS VASSUME(ch != 0 && (n4 & CHMASK) != 0); for (u64 i = 0; i < CAP; i++) VASSUME((i >= len || chars[i] != 0) && (i >= len2 || chars2[i] != 0)); \
  for (u64 i = 0; i < SMAX; i++) VASSUME(i >= slen || sarr[i] != 0);
#else
#define NONUL_ASSUMPTIONS
#endif
/* large capacities: the pre-state lengths are restricted to two windows (short strings, strings within LENWIN of the capacity) - a stated bound */
#ifdef LENWIN
#define LENWIN_ASSUME VASSUME((len <= LENWIN || len + LENWIN >= CAP) && (len2 <= LENWIN || len2 + LENWIN >= CAP));
#else
#define LENWIN_ASSUME
#endif
/* PROLOGUE: symbolic pre-state and arguments.  CSTR: the argument string is NUL terminated (and contains no other NUL). */
#define PROLOGUE(CSTR, PRE) \
  IN(u64, len); IN_ARR(CHT, chars, CAP + 1); IN_ARR(u8, stale, OBJSZ); \
  IN(u64, len2); IN_ARR(CHT, chars2, CAP + 1); IN_ARR(u8, stale2, OBJSZ); \
  IN(u64, slen); IN_ARR(CHT, sarr, SMAX + 1); \
  IN(u64, n1); IN(u64, n2); IN(u64, n3); IN(u64, n4); IN(u32, ch0); \
  VASSUME(len <= CAP && len2 <= CAP && slen <= SMAX); \
  LENWIN_ASSUME \
  VASSUME(PRE); \
  u32 ch = ch0 & CHMASK; \
  NONUL_ASSUMPTIONS \
  if (CSTR) for (u64 i = 0; i < SMAX; i++) VASSUME(i >= slen || sarr[i] != 0); \
  u8* obj = c01_mkobj(stale, chars, len); u8* oth = c01_mkobj(stale2, chars2, len2); \
  u8* res = c01_alloc(RESSZ); for (u64 i = 0; i < RESSZ; i++) res[i] = 0xEE; \
  CHT* sp = (CHT*)c01_alloc((slen + (CSTR)) * CS); \
  for (u64 i = 0; i < SMAX + 1; i++) if (i < slen) sp[i] = sarr[i]; \
  if (CSTR) sp[slen] = 0; \
  mstr m0, m, mo0, mo, mr; u32 sv[CAP + SMAX + 2], t[CAP + 2], dv[2 * CAP + 4]; u64 tn = 0, dn = 0; int cr = 0; i64 ev[8] = {0, 0, 0, 0, 0, 0, 0, 0}; i64 out[8] = {0, 0, 0, 0, 0, 0, 0, 0}; \
  c01_model(&m0, chars, len); m = m0; c01_model(&mo0, chars2, len2); mo = mo0; mr.len = 0; \
  for (u64 i = 0; i < CAP + 2; i++) { mr.c[i] = 0; t[i] = 0; } \
  for (u64 i = 0; i < 2 * CAP + 4; i++) dv[i] = 0; \
  for (u64 i = 0; i < CAP + SMAX + 2; i++) sv[i] = i < slen && i < SMAX + 1 ? sarr[i < SMAX + 1 ? i : 0] : 0; \
  WITNESS("stale_nonzero_after_terminator", len + 1 < CAP && GETC(obj, len + 1) != 0); \
  int rc = 0;   /* error code of the reference model (the snippets of optable.py write it); rrc is the real call's */
/* KF-C01-2 (open known finding, /verif/known_findings.json): arguments aliasing *this.  Defined only for the three aliasing call sites. */
#ifdef KF_EXCLUDE_KF_C01_2
#define C01_ALIAS_SKIP 1
#else
#define C01_ALIAS_SKIP 0
#endif
#define RESSZ ((2 * CAP + 4) * CS > OBJSZ ? (2 * CAP + 4) * CS : OBJSZ)

/* EPILOGUE(MUT, NV, RES, OTH, DST): compare outcome of the real call (rc_real) with the model */
/* PRECALL: evaluated after the reference model and BEFORE the real call (cbmc assumptions are not retroactive) */
#define PRECALL() do { if (!TP) VASSUME(rc != R_LEN);   /* silent policy: staying within capacity is the caller's precondition */ } while (0)
#define EPILOGUE(MUT, NV, RES, OTH, DST) \
  if (rc == R_OK) { \
    VASSERT(rrc == 0, "C01: operation whose result fits in N characters succeeds"); \
    if (rrc == 0) { \
      if (!C01_ALIAS_SKIP) STATE_EQ("C01: ", obj, m, "state after the operation equals std::basic_string's"); \
      for (int k_ = 0; k_ < (NV); k_++) VASSERT(out[k_] == ev[k_], "C01: returned value equals std::basic_string's"); \
      if (RES) STATE_EQ("C01: ", res, mr, "returned string equals std::basic_string's"); \
      if (OTH) STATE_EQ("C01: ", oth, mo, "second operand after the operation"); \
      if (DST) { for (u64 i_ = 0; i_ < 2 * CAP + 2; i_++) if (i_ < dn) VASSERT(GETC(res, i_) == dv[i_], "C01: characters written to the destination"); \
                 VASSERT(res[dn * CS] == 0xEE, "C02: destination buffer untouched after the copied characters"); } \
    } \
  } else { \
    VASSERT(rrc == rc, "C02: exception class (length_error when the result would exceed N, out_of_range for a bad position)"); \
    STATE_EQ("C02: ", obj, m0, "string unchanged after a failed operation"); \
  } \
  if (!(OTH)) STATE_EQ("C02: ", oth, mo0, "second operand is never modified"); \
  WITNESS("result_full", rc == 0 && m.len == CAP); WITNESS("length_error", rc == R_LEN); WITNESS("out_of_range", rc == R_RANGE); \
  WITNESS("pre_full", len == CAP); WITNESS("pre_empty", len == 0); \
  HARNESS_END();
