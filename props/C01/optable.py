"""Operation table (counts of inserted fill characters are assumed not to overflow size()+count, as the property states)

Operation table of xbasic_fixed_string shared by C01 and C02.

Every entry: (name, C++ statement(s) of the wrapper, C reference statements, precondition, result kinds)
 C++ side variables : x (object under test), o (second object, same type), s/sl (const CH* / length), n1..n4 (size_t), ch (uint32),
                      out (int64_t*), res (raw memory for a result object or a destination buffer), STR = std::basic_string<CH>
 reference side     : m (model of x, already a copy of the pre-state), mo (model of o), sv/slen (u32 array / length), n1..n4, ch,
                      rc (0 ok, 1 length_error, 2 out_of_range), ev[k] (expected out[k]), mr (model of the result object), t/tn scratch
 pre                : C condition assumed (documented preconditions of the call, e.g. valid iterators, NUL-terminated argument)
 kinds              : string of  m (x may change: compare post-state)  v<k> (k returned values)  r (result object)  o (o may change)  d (dest buffer)
"""
CSTR = 'CSTR'       # marker: s is a NUL-terminated string of length slen without inner NUL
OPS = []


def op(name, cpp, ref, pre='1', kinds='m', cstr=False, group=None):
    OPS.append(dict(name=name, cpp=cpp, ref=ref, pre=pre, kinds=kinds, cstr=cstr, group=group or name.split('_')[0]))


IL2 = '{CH(ch), CH(n4)}'            # a two element initializer list
IL2REF = 'u32 il[CAP + 2] = {ch & CHMASK, (u32)n4 & CHMASK}; '
SUBO = 'rc = m_sub(&mo, %s, %s, t, &tn); '          # sub-range of o
SUBS = '{ mstr ms; ms.len = slen; for (u64 i = 0; i < CAP + 1; i++) ms.c[i] = i < slen ? sv[i] : 0; rc = m_sub(&ms, %s, %s, t, &tn); } '   # sub-range of the std::string argument

# ---- assign / operator= / constructors -------------------------------------------------------------------------------
op('assign_cc', 'x.assign(n1, CH(ch));', 'rc = m_replace_fill(&m, 0, NPOS, n1, ch);')
op('assign_sn', 'x.assign(s, sl);', 'rc = m_replace(&m, 0, NPOS, sv, slen);')
op('assign_s', 'x.assign(s);', 'rc = m_replace(&m, 0, NPOS, sv, slen);', cstr=True)
op('assign_o', 'x.assign(o);', 'rc = m_replace(&m, 0, NPOS, mo.c, mo.len);')
op('assign_omove', 'x.assign(std::move(o));', 'rc = m_replace(&m, 0, NPOS, mo.c, mo.len);')
op('assign_opc', 'x.assign(o, n1, n2);', SUBO % ('n1', 'n2') + 'if (!rc) rc = m_replace(&m, 0, NPOS, t, tn);')
op('assign_op', 'x.assign(o, n1);', SUBO % ('n1', 'NPOS') + 'if (!rc) rc = m_replace(&m, 0, NPOS, t, tn);')
op('assign_it', 'x.assign(s, s + sl);', 'rc = m_replace(&m, 0, NPOS, sv, slen);')
op('assign_il', 'x.assign(%s);' % IL2, IL2REF + 'rc = m_replace(&m, 0, NPOS, il, 2);')
op('assign_str', 'x.assign(STR(s, sl));', 'rc = m_replace(&m, 0, NPOS, sv, slen);', group='strinterop')
op('assign_strpc', 'x.assign(STR(s, sl), n1, n2);', SUBS % ('n1', 'n2') + 'if (!rc) rc = m_replace(&m, 0, NPOS, t, tn);', group='strinterop')
op('assign_self', 'x.assign(x);', 'rc = 0;')
op('assign_selfpc', 'x.assign(x, n1, n2);', 'rc = m_sub(&m0, n1, n2, t, &tn); if (!rc) rc = m_replace(&m, 0, NPOS, t, tn);')
op('opassign_s', 'x = s;', 'rc = m_replace(&m, 0, NPOS, sv, slen);', cstr=True)
op('opassign_ch', 'x = CH(ch);', 'rc = m_replace_fill(&m, 0, NPOS, 1, ch);')
op('opassign_il', 'x = %s;' % IL2, IL2REF + 'rc = m_replace(&m, 0, NPOS, il, 2);')
op('opassign_str', 'x = STR(s, sl);', 'rc = m_replace(&m, 0, NPOS, sv, slen);', group='strinterop')
op('opassign_o', 'x = o;', 'rc = m_replace(&m, 0, NPOS, mo.c, mo.len);')
op('opassign_omove', 'x = std::move(o);', 'rc = m_replace(&m, 0, NPOS, mo.c, mo.len);')
op('ctor_default', 'new (res) FS();', 'mr.len = 0; mr.c[0] = 0;', kinds='r')
op('ctor_cc', 'new (res) FS(n1, CH(ch));', 'mr.len = 0; mr.c[0] = 0; rc = m_replace_fill(&mr, 0, 0, n1, ch);', kinds='r')
op('ctor_opc', 'new (res) FS(o, n1, n2);', 'mr.len = 0; mr.c[0] = 0; ' + SUBO % ('n1', 'n2') + 'if (!rc) rc = m_replace(&mr, 0, 0, t, tn);', kinds='r')
op('ctor_op', 'new (res) FS(o, n1);', 'mr.len = 0; mr.c[0] = 0; ' + SUBO % ('n1', 'NPOS') + 'if (!rc) rc = m_replace(&mr, 0, 0, t, tn);', kinds='r')
op('ctor_sn', 'new (res) FS(s, sl);', 'mr.len = 0; mr.c[0] = 0; rc = m_replace(&mr, 0, 0, sv, slen);', kinds='r')
op('ctor_s', 'new (res) FS(s);', 'mr.len = 0; mr.c[0] = 0; rc = m_replace(&mr, 0, 0, sv, slen);', kinds='r', cstr=True)
op('ctor_il', 'new (res) FS(%s);' % IL2, IL2REF + 'mr.len = 0; mr.c[0] = 0; rc = m_replace(&mr, 0, 0, il, 2);', kinds='r')
op('ctor_it', 'new (res) FS(s, s + sl);', 'mr.len = 0; mr.c[0] = 0; rc = m_replace(&mr, 0, 0, sv, slen);', kinds='r')
op('ctor_copy', 'new (res) FS(x);', 'mr = m;', kinds='r')
op('ctor_move', 'new (res) FS(std::move(x));', 'mr = m;', kinds='r')
op('ctor_str', 'new (res) FS(STR(s, sl));', 'mr.len = 0; mr.c[0] = 0; rc = m_replace(&mr, 0, 0, sv, slen);', kinds='r', group='strinterop')
op('ctor_strpc', 'new (res) FS(STR(s, sl), n1, n2);', 'mr.len = 0; mr.c[0] = 0; ' + SUBS % ('n1', 'n2') + 'if (!rc) rc = m_replace(&mr, 0, 0, t, tn);', kinds='r', group='strinterop')
op('to_str', 'STR t = x; out[0] = static_cast<int64_t>(t.size()); for (std::size_t i = 0; i < t.size() && i < FSN; ++i) reinterpret_cast<CH*>(res)[i] = t[i];',
   'ev[0] = (i64)m.len; dn = m.len; for (u64 i = 0; i < CAP + 1; i++) dv[i] = i < m.len ? m.c[i] : 0;', kinds='v1d', group='strinterop')
# ---- element access, observers, iterators --------------------------------------------------------------------------------
op('at', 'out[0] = cu(x.at(n1));', 'if (n1 >= m.len) rc = R_RANGE; else ev[0] = m.c[n1];', kinds='v1', group='access')
op('at_const', 'out[0] = cu(cx.at(n1));', 'if (n1 >= m.len) rc = R_RANGE; else ev[0] = m.c[n1];', kinds='v1', group='access')
op('at_write', 'x.at(n1) = CH(ch);', 'if (n1 >= m.len) rc = R_RANGE; else m.c[n1] = ch & CHMASK;', group='access')
op('index', 'out[0] = cu(x[n1]); out[1] = cu(cx[n1]);', 'ev[0] = ev[1] = n1 < m.len ? m.c[n1] : 0;', pre='n1 <= len', kinds='v2', group='access')
op('index_write', 'x[n1] = CH(ch);', 'm.c[n1] = ch & CHMASK;', pre='n1 < len', group='access')
op('front_back', 'out[0] = cu(x.front()); out[1] = cu(x.back()); out[2] = cu(cx.front()); out[3] = cu(cx.back());',
   'ev[0] = ev[2] = m.c[0]; ev[1] = ev[3] = m.c[m.len - 1];', pre='len > 0', kinds='v4', group='access')
op('observers', 'out[0] = x.size(); out[1] = x.length(); out[2] = x.empty(); out[3] = x.max_size(); out[4] = reinterpret_cast<const uint8_t*>(x.data()) - obj; out[5] = x.c_str() - x.data();',
   'ev[0] = ev[1] = (i64)m.len; ev[2] = m.len == 0; ev[3] = CAP; ev[4] = 0; ev[5] = 0;', kinds='v6', group='access')
op('iterators', 'out[0] = x.end() - x.begin(); out[1] = x.cend() - x.cbegin(); out[2] = cx.end() - cx.begin(); out[3] = x.rend() - x.rbegin(); out[4] = x.crend() - x.crbegin(); '
   'out[5] = x.begin() - x.data(); out[6] = x.rbegin().base() - x.data(); out[7] = cx.rend().base() - cx.data();',
   'ev[0] = ev[1] = ev[2] = ev[3] = ev[4] = (i64)m.len; ev[5] = 0; ev[6] = (i64)m.len; ev[7] = 0;', kinds='v8', group='access')
op('traverse', 'std::size_t k = 0; for (auto it = x.begin(); it != x.end(); ++it) reinterpret_cast<CH*>(res)[k++] = *it; for (auto it = x.crbegin(); it != x.crend(); ++it) reinterpret_cast<CH*>(res)[k++] = *it; out[0] = k;',
   'ev[0] = 2 * (i64)m.len; dn = 2 * m.len; for (u64 i = 0; i < 2 * CAP + 2; i++) dv[i] = i < m.len ? m.c[i] : i < 2 * m.len ? m.c[2 * m.len - 1 - i] : 0;', kinds='v1d', group='access')
# ---- clear push pop resize swap substr copy ------------------------------------------------------------------------------
op('clear', 'x.clear();', 'm.len = 0; m.c[0] = 0;', group='modify')
op('push_back', 'x.push_back(CH(ch));', 'rc = m_replace_fill(&m, m.len, 0, 1, ch);', group='modify')
op('pop_back', 'x.pop_back();', 'm.len -= 1; m.c[m.len] = 0;', pre='len > 0', group='modify')
op('resize_c', 'x.resize(n1);', 'if (n1 > CAP) rc = R_LEN; else if (n1 <= m.len) { m.len = n1; m.c[n1] = 0; } else rc = m_replace_fill(&m, m.len, 0, n1 - m.len, 32);', group='modify')
op('resize_cc', 'x.resize(n1, CH(ch));', 'if (n1 > CAP) rc = R_LEN; else if (n1 <= m.len) { m.len = n1; m.c[n1] = 0; } else rc = m_replace_fill(&m, m.len, 0, n1 - m.len, ch);', group='modify')
op('swap', 'x.swap(o);', 'm = mo; mo = m0;', kinds='mo', group='modify')
op('swap_free', 'using std::swap; swap(x, o);', 'm = mo; mo = m0;', kinds='mo', group='modify')
op('substr_pc', 'new (res) FS(x.substr(n1, n2));', 'mr.len = 0; mr.c[0] = 0; rc = m_sub(&m, n1, n2, t, &tn); if (!rc) rc = m_replace(&mr, 0, 0, t, tn);', kinds='r', group='modify')
op('substr_p', 'new (res) FS(x.substr(n1));', 'mr.len = 0; mr.c[0] = 0; rc = m_sub(&m, n1, NPOS, t, &tn); if (!rc) rc = m_replace(&mr, 0, 0, t, tn);', kinds='r', group='modify')
op('substr_0', 'new (res) FS(x.substr());', 'mr = m;', kinds='r', group='modify')
op('copy_cp', 'out[0] = x.copy(reinterpret_cast<CH*>(res), n1, n2);', 'rc = m_sub(&m, n2, n1, dv, &dn); ev[0] = (i64)dn;', kinds='v1d', group='modify')
op('copy_c', 'out[0] = x.copy(reinterpret_cast<CH*>(res), n1);', 'rc = m_sub(&m, 0, n1, dv, &dn); ev[0] = (i64)dn;', kinds='v1d', group='modify')
# ---- insert ---------------------------------------------------------------------------------------------------------------
op('insert_icc', 'x.insert(n1, n2, CH(ch));', 'rc = m_replace_fill(&m, n1, 0, n2, ch);', pre='n2 <= NPOS - len')
op('insert_is', 'x.insert(n1, s);', 'rc = m_replace(&m, n1, 0, sv, slen);', cstr=True)
op('insert_isn', 'x.insert(n1, s, sl);', 'rc = m_replace(&m, n1, 0, sv, slen);')
op('insert_io', 'x.insert(n1, o);', 'rc = m_replace(&m, n1, 0, mo.c, mo.len);')
op('insert_iopc', 'x.insert(n1, o, n2, n3);', 'if (n1 > m.len) rc = R_RANGE; else { ' + SUBO % ('n2', 'n3') + 'if (!rc) rc = m_replace(&m, n1, 0, t, tn); }')
op('insert_iop', 'x.insert(n1, o, n2);', 'if (n1 > m.len) rc = R_RANGE; else { ' + SUBO % ('n2', 'NPOS') + 'if (!rc) rc = m_replace(&m, n1, 0, t, tn); }')
op('insert_istr', 'x.insert(n1, STR(s, sl));', 'rc = m_replace(&m, n1, 0, sv, slen);', group='strinterop')
op('insert_istrpc', 'x.insert(n1, STR(s, sl), n2, n3);', 'if (n1 > m.len) rc = R_RANGE; else { ' + SUBS % ('n2', 'n3') + 'if (!rc) rc = m_replace(&m, n1, 0, t, tn); }', group='strinterop')
op('insert_iself', 'x.insert(n1, x);', 'rc = m_replace(&m, n1, 0, m0.c, m0.len);')
op('insert_pc', 'auto r = x.insert(x.cbegin() + n1, CH(ch)); out[0] = r - x.data();', 'rc = m_replace_fill(&m, n1, 0, 1, ch); ev[0] = (i64)n1;', pre='n1 <= len', kinds='mv1')
op('insert_pcc', 'auto r = x.insert(x.cbegin() + n1, n2, CH(ch)); out[0] = r - x.data();', 'rc = m_replace_fill(&m, n1, 0, n2, ch); ev[0] = (i64)n1;', pre='n1 <= len && n2 <= NPOS - len', kinds='mv1')
op('insert_pil', 'auto r = x.insert(x.cbegin() + n1, %s); out[0] = r - x.data();' % IL2, IL2REF + 'rc = m_replace(&m, n1, 0, il, 2); ev[0] = (i64)n1;', pre='n1 <= len', kinds='mv1')
op('insert_pit', 'auto r = x.insert(x.cbegin() + n1, s, s + sl); out[0] = r - x.data();', 'rc = m_replace(&m, n1, 0, sv, slen); ev[0] = (i64)n1;', pre='n1 <= len', kinds='mv1')
# ---- erase ----------------------------------------------------------------------------------------------------------------
op('erase_ic', 'x.erase(n1, n2);', 'rc = m_replace(&m, n1, n2, t, 0);')
op('erase_i', 'x.erase(n1);', 'rc = m_replace(&m, n1, NPOS, t, 0);')
op('erase_0', 'x.erase();', 'rc = m_replace(&m, 0, NPOS, t, 0);')
op('erase_p', 'auto r = x.erase(x.cbegin() + n1); out[0] = r - x.data();', 'rc = m_replace(&m, n1, 1, t, 0); ev[0] = (i64)n1;', pre='n1 < len', kinds='mv1')
op('erase_pp', 'auto r = x.erase(x.cbegin() + n1, x.cbegin() + n2); out[0] = r - x.data();', 'rc = m_replace(&m, n1, n2 - n1, t, 0); ev[0] = (i64)n1;', pre='n1 <= n2 && n2 <= len', kinds='mv1')
# ---- append / += ----------------------------------------------------------------------------------------------------------
op('append_cc', 'x.append(n1, CH(ch));', 'rc = m_replace_fill(&m, m.len, 0, n1, ch);', pre='n1 <= NPOS - len')
op('append_o', 'x.append(o);', 'rc = m_replace(&m, m.len, 0, mo.c, mo.len);')
op('append_opc', 'x.append(o, n1, n2);', SUBO % ('n1', 'n2') + 'if (!rc) rc = m_replace(&m, m.len, 0, t, tn);')
op('append_op', 'x.append(o, n1);', SUBO % ('n1', 'NPOS') + 'if (!rc) rc = m_replace(&m, m.len, 0, t, tn);')
op('append_str', 'x.append(STR(s, sl));', 'rc = m_replace(&m, m.len, 0, sv, slen);', group='strinterop')
op('append_strpc', 'x.append(STR(s, sl), n1, n2);', SUBS % ('n1', 'n2') + 'if (!rc) rc = m_replace(&m, m.len, 0, t, tn);', group='strinterop')
op('append_sn', 'x.append(s, sl);', 'rc = m_replace(&m, m.len, 0, sv, slen);')
op('append_s', 'x.append(s);', 'rc = m_replace(&m, m.len, 0, sv, slen);', cstr=True)
op('append_il', 'x.append(%s);' % IL2, IL2REF + 'rc = m_replace(&m, m.len, 0, il, 2);')
op('append_it', 'x.append(s, s + sl);', 'rc = m_replace(&m, m.len, 0, sv, slen);')
op('append_self', 'x.append(x);', 'rc = m_replace(&m, m.len, 0, m0.c, m0.len);')
op('pluseq_o', 'x += o;', 'rc = m_replace(&m, m.len, 0, mo.c, mo.len);', group='append')
op('pluseq_str', 'x += STR(s, sl);', 'rc = m_replace(&m, m.len, 0, sv, slen);', group='strinterop')
op('pluseq_ch', 'x += CH(ch);', 'rc = m_replace_fill(&m, m.len, 0, 1, ch);', group='append')
op('pluseq_s', 'x += s;', 'rc = m_replace(&m, m.len, 0, sv, slen);', cstr=True, group='append')
op('pluseq_il', 'x += %s;' % IL2, IL2REF + 'rc = m_replace(&m, m.len, 0, il, 2);', group='append')
# ---- compare --------------------------------------------------------------------------------------------------------------
SG = 'out[0] = sgn(%s);'
op('compare_o', SG % 'x.compare(o)', 'rc = m_compare(&m, 0, NPOS, mo.c, mo.len, &cr); ev[0] = cr;', kinds='v1')
op('compare_pco', SG % 'x.compare(n1, n2, o)', 'rc = m_compare(&m, n1, n2, mo.c, mo.len, &cr); ev[0] = cr;', kinds='v1')
op('compare_pcopc', SG % 'x.compare(n1, n2, o, n3, n4)', 'if (n1 > m.len) rc = R_RANGE; else { ' + SUBO % ('n3', 'n4') + 'if (!rc) rc = m_compare(&m, n1, n2, t, tn, &cr); } ev[0] = cr;', kinds='v1')
op('compare_pcop', SG % 'x.compare(n1, n2, o, n3)', 'if (n1 > m.len) rc = R_RANGE; else { ' + SUBO % ('n3', 'NPOS') + 'if (!rc) rc = m_compare(&m, n1, n2, t, tn, &cr); } ev[0] = cr;', kinds='v1')
op('compare_str', SG % 'x.compare(STR(s, sl))', 'rc = m_compare(&m, 0, NPOS, sv, slen, &cr); ev[0] = cr;', kinds='v1', group='strinterop')
op('compare_pcstr', SG % 'x.compare(n1, n2, STR(s, sl))', 'rc = m_compare(&m, n1, n2, sv, slen, &cr); ev[0] = cr;', kinds='v1', group='strinterop')
op('compare_pcstrpc', SG % 'x.compare(n1, n2, STR(s, sl), n3, n4)', 'if (n1 > m.len) rc = R_RANGE; else { ' + SUBS % ('n3', 'n4') + 'if (!rc) rc = m_compare(&m, n1, n2, t, tn, &cr); } ev[0] = cr;', kinds='v1', group='strinterop')
op('compare_s', SG % 'x.compare(s)', 'rc = m_compare(&m, 0, NPOS, sv, slen, &cr); ev[0] = cr;', kinds='v1', cstr=True)
op('compare_pcs', SG % 'x.compare(n1, n2, s)', 'rc = m_compare(&m, n1, n2, sv, slen, &cr); ev[0] = cr;', kinds='v1', cstr=True)
op('compare_pcsn', SG % 'x.compare(n1, n2, s, sl)', 'rc = m_compare(&m, n1, n2, sv, slen, &cr); ev[0] = cr;', kinds='v1')
# ---- replace --------------------------------------------------------------------------------------------------------------
ITPRE = 'n1 <= n2 && n2 <= len'
op('replace_pco', 'x.replace(n1, n2, o);', 'rc = m_replace(&m, n1, n2, mo.c, mo.len);')
op('replace_iio', 'x.replace(x.cbegin() + n1, x.cbegin() + n2, o);', 'rc = m_replace(&m, n1, n2 - n1, mo.c, mo.len);', pre=ITPRE)
op('replace_pcopc', 'x.replace(n1, n2, o, n3, n4);', 'if (n1 > m.len) rc = R_RANGE; else { ' + SUBO % ('n3', 'n4') + 'if (!rc) rc = m_replace(&m, n1, n2, t, tn); }')
op('replace_pcop', 'x.replace(n1, n2, o, n3);', 'if (n1 > m.len) rc = R_RANGE; else { ' + SUBO % ('n3', 'NPOS') + 'if (!rc) rc = m_replace(&m, n1, n2, t, tn); }')
op('replace_pcstr', 'x.replace(n1, n2, STR(s, sl));', 'rc = m_replace(&m, n1, n2, sv, slen);', group='strinterop')
op('replace_iistr', 'x.replace(x.cbegin() + n1, x.cbegin() + n2, STR(s, sl));', 'rc = m_replace(&m, n1, n2 - n1, sv, slen);', pre=ITPRE, group='strinterop')
op('replace_pcstrpc', 'x.replace(n1, n2, STR(s, sl), n3, n4);', 'if (n1 > m.len) rc = R_RANGE; else { ' + SUBS % ('n3', 'n4') + 'if (!rc) rc = m_replace(&m, n1, n2, t, tn); }', group='strinterop')
op('replace_pcsn', 'x.replace(n1, n2, s, sl);', 'rc = m_replace(&m, n1, n2, sv, slen);')
op('replace_iisn', 'x.replace(x.cbegin() + n1, x.cbegin() + n2, s, sl);', 'rc = m_replace(&m, n1, n2 - n1, sv, slen);', pre=ITPRE)
op('replace_pcs', 'x.replace(n1, n2, s);', 'rc = m_replace(&m, n1, n2, sv, slen);', cstr=True)
op('replace_iis', 'x.replace(x.cbegin() + n1, x.cbegin() + n2, s);', 'rc = m_replace(&m, n1, n2 - n1, sv, slen);', pre=ITPRE, cstr=True)
op('replace_pccc', 'x.replace(n1, n2, n3, CH(ch));', 'rc = m_replace_fill(&m, n1, n2, n3, ch);', pre='n3 <= NPOS - len')
op('replace_iicc', 'x.replace(x.cbegin() + n1, x.cbegin() + n2, n3, CH(ch));', 'rc = m_replace_fill(&m, n1, n2 - n1, n3, ch);', pre=ITPRE + ' && n3 <= NPOS - len')
op('replace_iiil', 'x.replace(x.cbegin() + n1, x.cbegin() + n2, %s);' % IL2, IL2REF + 'rc = m_replace(&m, n1, n2 - n1, il, 2);', pre=ITPRE)
op('replace_iiit', 'x.replace(x.cbegin() + n1, x.cbegin() + n2, s, s + sl);', 'rc = m_replace(&m, n1, n2 - n1, sv, slen);', pre=ITPRE)
op('replace_pcself', 'x.replace(n1, n2, x);', 'rc = m_replace(&m, n1, n2, m0.c, m0.len);')
# ---- search families ------------------------------------------------------------------------------------------------------
FAM = [('find', 'm_find(&m, %s, %s, %s)', '0'), ('rfind', 'm_rfind(&m, %s, %s, %s)', 'NPOS'),
       ('find_first_of', 'm_find_first(&m, %s, %s, %s, 1)', '0'), ('find_first_not_of', 'm_find_first(&m, %s, %s, %s, 0)', '0'),
       ('find_last_of', 'm_find_last(&m, %s, %s, %s, 1)', 'NPOS'), ('find_last_not_of', 'm_find_last(&m, %s, %s, %s, 0)', 'NPOS')]
for f, r, dflt in FAM:
    V = 'out[0] = static_cast<int64_t>(%s);'
    op(f + '_o_p', V % ('x.%s(o, n1)' % f), 'ev[0] = (i64)' + r % ('mo.c', 'n1', 'mo.len') + ';', kinds='v1', group=f)
    op(f + '_o', V % ('x.%s(o)' % f), 'ev[0] = (i64)' + r % ('mo.c', dflt, 'mo.len') + ';', kinds='v1', group=f)
    op(f + '_str_p', V % ('x.%s(STR(s, sl), n1)' % f), 'ev[0] = (i64)' + r % ('sv', 'n1', 'slen') + ';', kinds='v1', group='strinterop')
    op(f + '_str', V % ('x.%s(STR(s, sl))' % f), 'ev[0] = (i64)' + r % ('sv', dflt, 'slen') + ';', kinds='v1', group='strinterop')
    op(f + '_snp', V % ('x.%s(s, n1, sl)' % f), 'ev[0] = (i64)' + r % ('sv', 'n1', 'slen') + ';', kinds='v1', group=f)
    op(f + '_s_p', V % ('x.%s(s, n1)' % f), 'ev[0] = (i64)' + r % ('sv', 'n1', 'slen') + ';', kinds='v1', cstr=True, group=f)
    op(f + '_s', V % ('x.%s(s)' % f), 'ev[0] = (i64)' + r % ('sv', dflt, 'slen') + ';', kinds='v1', cstr=True, group=f)
    op(f + '_ch_p', V % ('x.%s(CH(ch), n1)' % f), '{ u32 c1 = ch & CHMASK; ev[0] = (i64)' + r % ('&c1', 'n1', '1') + '; }', kinds='v1', group=f)
    op(f + '_ch', V % ('x.%s(CH(ch))' % f), '{ u32 c1 = ch & CHMASK; ev[0] = (i64)' + r % ('&c1', dflt, '1') + '; }', kinds='v1', group=f)
# ---- operator+ and relational operators -----------------------------------------------------------------------------------
CAT = 'mr = %s; if (!rc) rc = m_replace(&mr, mr.len, 0, %s, %s);'
op('plus_oo', 'new (res) FS(x + o);', 'mr = m; rc = m_replace(&mr, mr.len, 0, mo.c, mo.len);', kinds='r', group='concat')
op('plus_os', 'new (res) FS(x + s);', 'mr = m; rc = m_replace(&mr, mr.len, 0, sv, slen);', kinds='r', cstr=True, group='concat')
op('plus_oc', 'new (res) FS(x + CH(ch));', 'mr = m; rc = m_replace_fill(&mr, mr.len, 0, 1, ch);', kinds='r', group='concat')
op('plus_so', 'new (res) FS(s + x);', 'mr = m; rc = m_replace(&mr, 0, 0, sv, slen);', kinds='r', cstr=True, group='concat')
op('plus_co', 'new (res) FS(CH(ch) + x);', 'mr = m; rc = m_replace_fill(&mr, 0, 0, 1, ch);', kinds='r', group='concat')
op('plus_rvalues', 'new (res) FS(FS(x) + FS(o));', 'mr = m; rc = m_replace(&mr, mr.len, 0, mo.c, mo.len);', kinds='r', group='concat')
REL = ('out[0] = (int64_t)(%(a)s == %(b)s) | (int64_t)(%(a)s != %(b)s) << 1 | (int64_t)(%(a)s < %(b)s) << 2 | (int64_t)(%(a)s <= %(b)s) << 3 | '
       '(int64_t)(%(a)s > %(b)s) << 4 | (int64_t)(%(a)s >= %(b)s) << 5;')
RELREF = 'ev[0] = (cr == 0) | (cr != 0) << 1 | (cr < 0) << 2 | (cr <= 0) << 3 | (cr > 0) << 4 | (cr >= 0) << 5;'
op('rel_oo', REL % dict(a='x', b='o'), 'cr = m_cmp(m.c, m.len, mo.c, mo.len); ' + RELREF, kinds='v1', group='relational')
op('rel_os', REL % dict(a='x', b='s'), 'cr = m_cmp(m.c, m.len, sv, slen); ' + RELREF, kinds='v1', cstr=True, group='relational')
op('rel_so', REL % dict(a='s', b='x'), 'cr = m_cmp(sv, slen, m.c, m.len); ' + RELREF, kinds='v1', cstr=True, group='relational')
op('rel_ostr', REL % dict(a='x', b='STR(s, sl)'), 'cr = m_cmp(m.c, m.len, sv, slen); ' + RELREF, kinds='v1', group='strinterop')
op('rel_stro', REL % dict(a='STR(s, sl)', b='x'), 'cr = m_cmp(sv, slen, m.c, m.len); ' + RELREF, kinds='v1', group='strinterop')
