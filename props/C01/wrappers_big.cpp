// C01 large capacities: the length encodings of the packed (N <= 255: length kept in the last buffer element as N - size) and size-field (N >= 256) storages
// for capacities the one-step table (N = 5) cannot reach.  FSN and FS_ST are given on the command line.
#include <cstdint>
#include <cstddef>
#include <new>
#include <stdexcept>
#include <xtl/xbasic_fixed_string.hpp>
typedef xtl::xbasic_fixed_string<char, FSN, FS_ST, xtl::string_policy::throwing_error> FS;
static_assert(sizeof(FS) == FS_OBJSZ, "object layout of this configuration");
#define W extern "C" __attribute__((noinline)) int64_t
#define GUARD(...) try { __VA_ARGS__ return 0; } catch (std::length_error&) { return 1; } catch (std::out_of_range&) { return 2; } catch (...) { return 3; }
#define X (*reinterpret_cast<FS*>(obj))
W w_binit(uint8_t* obj, const uint8_t* sp, uint64_t n) { GUARD(FS* p = new (obj) FS(); p->assign(reinterpret_cast<const char*>(sp), n);) }
W w_bfill(uint8_t* obj, uint64_t n, uint32_t ch) { GUARD(FS* p = new (obj) FS(); p->assign(n, static_cast<char>(ch));) }
W w_bsize(const uint8_t* obj) { return static_cast<int64_t>(reinterpret_cast<const FS*>(obj)->size()); }
W w_blength_empty(const uint8_t* obj) { const FS& x = *reinterpret_cast<const FS*>(obj); return static_cast<int64_t>(x.length()) * 2 + (x.empty() ? 1 : 0); }
W w_bend_minus_begin(const uint8_t* obj) { const FS& x = *reinterpret_cast<const FS*>(obj); return x.end() - x.begin(); }
W w_bdata_at(const uint8_t* obj, uint64_t i) { return static_cast<unsigned char>(reinterpret_cast<const FS*>(obj)->data()[i]); }
W w_bpush_back(uint8_t* obj, uint32_t ch) { GUARD(X.push_back(static_cast<char>(ch));) }
W w_bpop_back(uint8_t* obj) { GUARD(X.pop_back();) }
W w_bclear(uint8_t* obj) { GUARD(X.clear();) }
W w_bresize(uint8_t* obj, uint64_t n, uint32_t ch) { GUARD(X.resize(n, static_cast<char>(ch));) }
W w_bappend(uint8_t* obj, const uint8_t* sp, uint64_t n) { GUARD(X.append(reinterpret_cast<const char*>(sp), n);) }
W w_berase(uint8_t* obj, uint64_t pos, uint64_t cnt) { GUARD(X.erase(pos, cnt);) }
W w_binsert(uint8_t* obj, uint64_t pos, uint64_t cnt, uint32_t ch) { GUARD(X.insert(pos, cnt, static_cast<char>(ch));) }
W w_bfind(const uint8_t* obj, uint32_t ch, uint64_t pos) { return static_cast<int64_t>(reinterpret_cast<const FS*>(obj)->find(static_cast<char>(ch), pos)); }
W w_brfind(const uint8_t* obj, uint32_t ch) { return static_cast<int64_t>(reinterpret_cast<const FS*>(obj)->rfind(static_cast<char>(ch))); }
W w_bat(const uint8_t* obj, uint64_t i, int64_t* out) { GUARD(out[0] = static_cast<unsigned char>(reinterpret_cast<const FS*>(obj)->at(i));) }
