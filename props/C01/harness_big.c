/* C01, large capacities (CAP = 200/255 packed, 256/300 size field): pre-state = a short string of arbitrary characters (window "lo": len <= 3) or a string of one repeated
 * arbitrary character within 2 of the capacity (window "hi"), built through the real assign; stale bytes arbitrary.  One operation, compared with the obvious model. */
#include "harness.h"
#include "gen.h"
#include <stdlib.h>
static u8* mk(u64 n) { u8* p = (u8*)malloc(n ? n : 1);
#ifdef __CPROVER__
  __CPROVER_assume(p != 0);
#endif
  return p; }
#define MLEN 8
typedef struct { u64 len; u8 head[MLEN]; u8 fillc; int hi; } model;   /* lo window: head[0..len) ; hi window: fillc repeated len times */
static u8 m_at(const model* m, u64 i) { return m->hi ? m->fillc : m->head[i < MLEN ? i : 0]; }
static void check_state(const u8* obj, const model* m, const char* what) {
  VASSERT((u64)w_bsize(obj) == m->len, "C01: size() (large capacity)");
  VASSERT((u64)w_blength_empty(obj) == m->len * 2 + (m->len == 0), "C01: length()/empty() (large capacity)");
  VASSERT((u64)w_bend_minus_begin(obj) == m->len, "C01: end() - begin() (large capacity)");
  VASSERT(w_bdata_at(obj, m->len) == 0, "C01: NUL at data()[size()] (large capacity)");
  if (m->len > 0) { VASSERT((u8)w_bdata_at(obj, 0) == m_at(m, 0), "C01: first character (large capacity)"); VASSERT((u8)w_bdata_at(obj, m->len - 1) == m_at(m, m->len - 1), "C01: last character (large capacity)"); }
  if (m->len > 1) VASSERT((u8)w_bdata_at(obj, m->len - 2) == m_at(m, m->len - 2), "C01: characters (large capacity)");
  (void)what;
}
void h_big(void) {
  IN(u64, len); IN_ARR(u8, chars, 4); IN_ARR(u8, stale, OBJSZ); IN(u8, fillc); IN(u8, op); IN(u32, ch0); IN(u64, n1); IN(u64, n2); IN_ARR(u8, arg, 3);
  u8 ch = (u8)ch0;
  u8* obj = mk(OBJSZ); for (u64 i = 0; i < OBJSZ; i++) obj[i] = stale[i];
  model m; m.fillc = fillc; for (int i = 0; i < MLEN; i++) m.head[i] = 0;
#ifdef HI
  VASSUME(len + 2 >= CAP && len <= CAP); m.hi = 1; m.len = len;
  VASSERT(w_bfill(obj, len, fillc) == 0, "C01: a string of length <= N can be assigned (large capacity)");
#else
  VASSUME(len <= 3); m.hi = 0; m.len = len; for (u64 i = 0; i < 3; i++) if (i < len) m.head[i] = chars[i];
  { u8* sp = mk(len); for (u64 i = 0; i < 3; i++) if (i < len) sp[i] = chars[i]; VASSERT(w_binit(obj, sp, len) == 0, "C01: a short string can be assigned (large capacity)"); }
#endif
  check_state(obj, &m, "pre-state");
  VASSUME(op < 9);
#ifdef OPFIX
  op = OPFIX;
#endif
#ifdef HI
  VASSUME(ch == fillc || op >= 6);     /* the model of the long string is one repeated character */
#endif
  i64 rc = 0; int expect_rc = 0;
  switch (op) {
    case 0: rc = w_bpush_back(obj, ch); if (m.len + 1 > CAP) expect_rc = 1; else { if (!m.hi) m.head[m.len] = ch; m.len++; } break;
    case 1: VASSUME(m.len > 0); rc = w_bpop_back(obj); m.len--; break;
    case 2: rc = w_bclear(obj); m.len = 0; m.hi = 0; break;
    case 3: /* resize within the window */
#ifdef HI
      VASSUME(n1 + 3 >= CAP && n1 <= CAP + 1);
#else
      VASSUME(n1 <= 5);
#endif
      rc = w_bresize(obj, n1, ch); if (n1 > CAP) expect_rc = 1; else { if (!m.hi) for (u64 i = 0; i < 5; i++) if (i >= m.len && i < n1) m.head[i] = ch; m.len = n1; } break;
    case 4: { VASSUME(n1 <= 3); u8* sp = mk(n1); for (u64 i = 0; i < 3; i++) if (i < n1) sp[i] = m.hi ? m.fillc : arg[i]; rc = w_bappend(obj, sp, n1);
              if (m.len + n1 > CAP) expect_rc = 1; else { if (!m.hi) for (u64 i = 0; i < 3; i++) if (i < n1) m.head[m.len + i] = arg[i]; m.len += n1; } } break;
    case 5: /* erase a tail */ VASSUME(n1 <= m.len && n1 + 3 >= m.len); rc = w_berase(obj, n1, n2); { u64 c = n2 < m.len - n1 ? n2 : m.len - n1; VASSUME(c == m.len - n1 || m.hi); m.len -= c; } break;
    case 6: { i64 r = w_bfind(obj, ch, 0); u64 e = (u64)-1; if (m.hi) { if (m.len && ch == m.fillc) e = 0; } else for (u64 i = 3; i-- > 0;) if (i < m.len && m.head[i] == ch) e = i; VASSERT((u64)r == e, "C01: find(ch) (large capacity)"); } break;
    case 7: { i64 r = w_brfind(obj, ch); u64 e = (u64)-1; if (m.hi) { if (m.len && ch == m.fillc) e = m.len - 1; } else for (u64 i = 0; i < 3; i++) if (i < m.len && m.head[i] == ch) e = i; VASSERT((u64)r == e, "C01: rfind(ch) searches from the end of the string (large capacity)"); } break;
    default: { i64 out[1] = {-1}; rc = w_bat(obj, n1, (u64*)out); if (n1 >= m.len) expect_rc = 2; else { VASSUME(n1 < 3 || n1 + 3 >= m.len); VASSERT((u8)out[0] == m_at(&m, n1), "C01: at(i) (large capacity)"); } } break;
  }
  VASSERT(rc == expect_rc, "C01: the operation is refused exactly when the [basic.string] result would exceed N (length_error) or the position is out of range (large capacity)");
  check_state(obj, &m, "post-state");
  WITNESS("full", m.len == CAP); WITNESS("refused", expect_rc != 0);
  HARNESS_END();
}
