// C20 wrappers: executable_path / prefix_path (Linux branch) against a modelled readlink, and endianness().
#include <cstdint>
#include <string>
#include <xtl/xsystem.hpp>
#include <xtl/xplatform.hpp>
#define W extern "C" __attribute__((noinline)) int64_t
W w_exe(uint8_t* out, uint64_t cap) { std::string p = xtl::executable_path(); for (uint64_t i = 0; i < p.size() && i < cap; ++i) out[i] = static_cast<uint8_t>(p[i]); return static_cast<int64_t>(p.size()); }
W w_prefix(uint8_t* out, uint64_t cap) { std::string p = xtl::prefix_path(); for (uint64_t i = 0; i < p.size() && i < cap; ++i) out[i] = static_cast<uint8_t>(p[i]); return static_cast<int64_t>(p.size()); }
W w_endian() { xtl::endian e = xtl::endianness(); return e == xtl::endian::little_endian ? 1 : e == xtl::endian::big_endian ? 2 : 3; }
