/* C20 harnesses.  The operating system is a stub constrained only by the contract of readlink(2): given that the real path of the
 * running binary is P (|P| = PLEN bytes, none of them NUL), readlink(path, buf, bufsiz) returns min(|P|, bufsiz), writes exactly that many
 * bytes of P into buf, touches nothing else and does NOT NUL-terminate - or fails with -1.  PLEN is concrete per obligation.
 * SYMBOLIC_CONTENT: every byte of P is an arbitrary non-NUL value (short paths); otherwise P is a fixed pattern with separators. */
#include "harness.h"
#include "gen.h"
#include <stdlib.h>
#ifndef PLEN
#define PLEN 9
#endif
#ifndef PMAX
#define PMAX 0x7fffffff      /* longest path the property speaks about (PATH_MAX; BUFN - 1 in the scaled configuration) */
#endif
static u8 P[PLEN + 1]; static int g_fail; static u64 g_bufsiz_seen; static int g_calls;
i64 ext_readlink(u8* path, u8* buf, u64 bufsiz) {
  (void)path; g_calls++; g_bufsiz_seen = bufsiz;
  if (g_fail) return -1;
  u64 r = PLEN < bufsiz ? PLEN : bufsiz;
  for (u64 i = 0; i < PLEN; i++) if (i < r) buf[i] = P[i];
  return (i64)r;
}
/* getauxval(AT_EXECFN) is not used by xtl; should a change start using the auxiliary vector, its contract is only "the pathname used to
 * execute the program" - any absolute NUL-terminated string, not necessarily the real path */
static u8 AUXV[8]; static int g_auxv_used;
u64 ext_getauxval(u64 type) { (void)type; g_auxv_used = 1; AUXV[0] = '/'; AUXV[7] = 0; return (u64)AUXV; }
#if !defined(__CPROVER__)
/* native builds link the real wrappers, which call the C library's readlink: interpose it */
long readlink(const char* path, char* buf, unsigned long bufsiz) { return ext_readlink((u8*)path, (u8*)buf, bufsiz); }
#endif
static void mkpath(const u8* sym) {
#ifdef SYMBOLIC_CONTENT
  for (int i = 0; i < PLEN; i++) P[i] = sym[i];
#else
  (void)sym;
  for (int i = 0; i < PLEN; i++) P[i] = (i % 7 == 0) ? '/' : (u8)(i % 11 == 3 ? 0xC3 : i % 5 == 2 ? ' ' : 'a' + i % 26);   /* absolute path, components with spaces and non-ASCII bytes */
#ifdef TAILSYM
  for (int i = 0; i < TAILSYM; i++) if (PLEN - 1 - i > 0) P[PLEN - 1 - i] = sym[i];   /* the last bytes (file name, last separators) are symbolic */
#endif
#endif
  P[PLEN] = 0;
}
void h_exe(void) {
  IN_ARR(u8, sym, PLEN + 1); IN(u8, fail); VASSUME(fail < 2);
#ifdef SYMBOLIC_CONTENT
  for (int i = 0; i < PLEN; i++) VASSUME(sym[i] != 0);
#endif
#ifdef KF_EXCLUDE_KF_C20_1
  VASSUME(PLEN < 1024 || fail);
#endif
#if defined(TAILSYM) && !defined(SYMBOLIC_CONTENT)
  for (int i = 0; i < TAILSYM; i++) VASSUME(sym[i] != 0);
#endif
  mkpath(sym); g_fail = fail; g_calls = 0; { IN_ARR(u8, aux, 8); for (int i = 0; i < 8; i++) AUXV[i] = aux[i]; }
  u8* out = HALLOC(PLEN + 8);
  i64 n = w_exe(out, PLEN + 8);
#ifndef PMAX
#define PMAX 0x7fffffff      /* longest path the property speaks about (PATH_MAX; BUFN - 1 in the scaled configuration) */
#endif
  if (!fail && PLEN <= PMAX) {   /* what happens when the operating system cannot name the binary is not part of the property; beyond PATH_MAX only memory safety is decided */
    VASSERT(n == PLEN, "executable_path() has the length of the real path");
    for (int i = 0; i < PLEN; i++) VASSERT(out[i] == P[i], "executable_path() returns exactly the real path");
  }
  WITNESS("readlink_fails", fail); WITNESS("non_ascii", PLEN > 3 && P[3] >= 0x80);
  HARNESS_END();
}
void h_prefix(void) {
  IN_ARR(u8, sym, PLEN + 1);
#ifdef SYMBOLIC_CONTENT
  for (int i = 0; i < PLEN; i++) VASSUME(sym[i] != 0);
  VASSUME(PLEN == 0 || sym[0] == '/');          /* an absolute path */
#endif
#if defined(TAILSYM) && !defined(SYMBOLIC_CONTENT)
  for (int i = 0; i < TAILSYM; i++) VASSUME(sym[i] != 0);
#endif
  mkpath(sym); g_fail = 0; g_calls = 0;
  u8* out = HALLOC(PLEN + 8);
  i64 n = w_prefix(out, PLEN + 8);
  /* grandparent directory with trailing separator: cut at the last separator, cut again at the last separator of what is left, append one */
  i64 i = -1; for (int k = 0; k < PLEN; k++) if (P[k] == '/') i = k;
  i64 blen = i < 0 ? PLEN : i;
  i64 j = -1; for (int k = 0; k < PLEN; k++) if (k < blen && P[k] == '/') j = k;
  i64 plen = j < 0 ? blen : j;
  if (PLEN <= PMAX) {
  VASSERT(n == plen + 1, "prefix_path() is the grandparent directory plus a trailing separator: length");
  for (int k = 0; k < PLEN; k++) if (k < plen) VASSERT(out[k] == P[k], "prefix_path() is a prefix of the real path");
  VASSERT(out[plen] == '/', "prefix_path() ends with the separator");
  }
  WITNESS("deep_path", j > 0); WITNESS("binary_in_root", i == 0);
  HARNESS_END();
}
void h_endian(void) {
  u32 probe = 0x01020304; u8 first = *(u8*)&probe;
  i64 e = w_endian();
  VASSERT(e == (first == 0x04 ? 1 : first == 0x01 ? 2 : 3), "endianness() reports the byte order the platform uses for multi-byte integers");
  HARNESS_END();
}
