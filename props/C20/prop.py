"""C20 - executable_path / prefix_path name the running binary at any install path; endianness."""
ID = 'C20'
CLAIM = ('executable_path() and prefix_path() (Linux branch) executed against a readlink stub constrained only by the readlink(2) contract (returns min(|P|, bufsiz) bytes of the real path P, no terminator, or -1), '
         'with the real std::string inline code: returned path == P, prefix == grandparent directory + separator, no access outside the internal buffer; one obligation per concrete |P| in 0..12, 16, 17, 24, 31 '
         '(thorough up to 48) with EVERY byte of P symbolic (any non-NUL byte: spaces, backslashes, non-ASCII), readlink failure included; endianness() against the memory model of the x86-64 target')
BOUNDS = {'quick': '|P| in {0..12, 16, 17, 24, 31}, all bytes symbolic (non-NUL; absolute path for prefix_path); std::string buffers are constant-size blocks of 2|P|+40 bytes (a larger request fails an assertion)', 'thorough': 'additionally |P| in {13, 14, 15, 20, 40, 48}'}
NOT_COVERED = ['symlinks, /proc not mounted, non-Linux branches: behaviour of the environment, not of xtl', 'paths longer than PATH_MAX; big-endian targets (cbmc models the x86-64 target of the build)',
               'paths longer than 48 bytes, in particular lengths around the 1024-byte internal buffer: copying ~1000 symbolic bytes through std::string gave no verdict within 400 s on any back end (measured for |P| = 255, 1023, 1024), so the behaviour at and beyond the buffer size (readlink fills the buffer without a terminator; the path is truncated) is NOT decided by this check']
ASSUMPTIONS = ['readlink obeys its man page contract and nothing more (stub in the harness)', 'std::string::_M_replace/_M_replace_aux/_M_create/_M_mutate/rfind are modelled in rt/libstdcxx_models.c on the real object layout']
INERT = []


def lens(tier):
    return (list(range(0, 13)) + [16, 17, 24, 31] + ([13, 14, 15, 20, 40, 48] if tier == 'thorough' else []))


def units(tier):
    return [Unit('sys', 'wrappers.cpp', ['harness.c'], rt=('verif_rt.c', 'libstdcxx_models.c'), tv=[('h_exe', ['PLEN=9', 'SYMBOLIC_CONTENT']), ('h_prefix', ['PLEN=11', 'SYMBOLIC_CONTENT']), ('h_prefix', ['PLEN=24', 'SYMBOLIC_CONTENT'])], tv_iters=3000)]


def obligations(tier):
    obs = []
    for L in lens(tier):
        for h in ('h_exe', 'h_prefix'):
            ob = Ob('%s/len%02d' % (h[2:], L), 'sys', h, defines=['PLEN=%d' % L, 'SYMBOLIC_CONTENT', 'RT_STR_BLOCK=%d' % (2 * L + 40), 'RT_STR_BLOCK_ONLY'], unwind=L + 6, mem_unwind=L + 4,
                    unwindset=['__verif_memset.0:1030'], bound='|P|=%d, all bytes symbolic' % L, timeout=900, backend='cadical' if L > 12 else 'minisat'); ob.harness_unwind = L + 4; obs.append(ob)
    ob = Ob('endianness', 'sys', 'h_endian', defines=['PLEN=1'], unwind=6, bound='-'); obs.append(ob)
    return obs
