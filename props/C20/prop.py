"""C20 - executable_path / prefix_path name the running binary at any install path; endianness."""
ID = 'C20'
CLAIM = ('executable_path() and prefix_path() (Linux branch) executed against a readlink stub constrained only by the readlink(2) contract (returns min(|P|, bufsiz) bytes of the real path P, no terminator, or -1), '
         'with the real std::string inline code: returned path == P, prefix == grandparent directory + separator, no access outside the internal buffer; one obligation per concrete |P| in 0..12, 16, 17, 24, 31 '
         '(thorough up to 48) with EVERY byte of P symbolic (any non-NUL byte: spaces, backslashes, non-ASCII), readlink failure included; endianness() against the memory model of the x86-64 target')
BOUNDS = {'quick': '|P| in {0..12, 16, 17, 24, 31}, all bytes symbolic (non-NUL; absolute path for prefix_path); std::string buffers are constant-size blocks of 2|P|+40 bytes (a larger request fails an assertion)', 'thorough': 'additionally |P| in {13, 14, 15, 20, 40, 48}'}
NOT_COVERED = ['prefix_path() for paths longer than 48 bytes (out of memory at |P| = 255); executable_path() beyond 257 bytes only in the thorough tier and only with a fixed path pattern', 'symlinks, /proc not mounted, non-Linux branches: behaviour of the environment, not of xtl', 'paths longer than PATH_MAX; big-endian targets (cbmc models the x86-64 target of the build)',
               'paths longer than 48 bytes, in particular lengths around the 1024-byte internal buffer: copying ~1000 symbolic bytes through std::string gave no verdict within 400 s on any back end (measured for |P| = 255, 1023, 1024), so the behaviour at and beyond the buffer size (readlink fills the buffer without a terminator; the path is truncated) is NOT decided by this check']
ASSUMPTIONS = ['readlink obeys its man page contract and nothing more (stub in the harness)', 'std::string::_M_replace/_M_replace_aux/_M_create/_M_mutate/rfind are modelled in rt/libstdcxx_models.c on the real object layout']
INERT = []


LONG = {'quick': [255, 256, 257], 'thorough': [255, 256, 257, 300, 511, 512, 1022, 1023]}
SCALED_N = 16      # -DXTL_VERIF -DXTL_VERIF_PATH_BUFFER=16: the internal buffer of executable_path scaled down (hook in /repo), every byte of the path symbolic


def lens(tier):
    return (list(range(0, 13)) + [16, 17, 24, 31] + ([13, 14, 15, 20, 40, 48] if tier == 'thorough' else []))


def hooked(n, tvlen):
    return Unit('sysN%d' % n, 'wrappers.cpp', ['harness.c'], cxxflags=['-DXTL_VERIF', '-DXTL_VERIF_PATH_BUFFER=%d' % n], rt=('verif_rt.c', 'libstdcxx_models.c'),
                tv=[('h_exe', ['PLEN=%d' % tvlen, 'SYMBOLIC_CONTENT']), ('h_prefix', ['PLEN=%d' % (tvlen + 1), 'SYMBOLIC_CONTENT'])], tv_iters=2000)


def units(tier):
    # 'sys' is the code as shipped (PATH_MAX + 1 = 4097-byte buffer: ~3 min per obligation, so only two path lengths and endianness are decided on it); the other units scale the
    # internal buffer through the XTL_VERIF_PATH_BUFFER hook of /repo (the code is otherwise identical): 64 bytes for paths up to 48, 320 for paths around 256, 16 for the buffer boundary
    us = [Unit('sys', 'wrappers.cpp', ['harness.c'], rt=('verif_rt.c', 'libstdcxx_models.c'), tv=[('h_exe', ['PLEN=9', 'SYMBOLIC_CONTENT']), ('h_prefix', ['PLEN=11', 'SYMBOLIC_CONTENT'])], tv_iters=2000),
          hooked(SCALED_N, 14), hooked(64, 24), hooked(320, 40)]
    if tier == 'thorough': us.append(hooked(1100, 30))
    return us


def obligations(tier):
    obs = []
    def add(name, unit, h, L, extra, bound, backend='minisat', memset=None):
        ob = Ob(name, unit, h, defines=['PLEN=%d' % L, 'RT_STR_BLOCK=%d' % (2 * L + 40), 'RT_STR_BLOCK_ONLY'] + extra, unwind=L + 6, mem_unwind=L + 8,
                unwindset=['__verif_memset.0:%d' % memset] if memset else [], bound=bound, timeout=900, backend=backend); ob.harness_unwind = L + 4; obs.append(ob)
    for L in lens(tier):
        for h in ('h_exe', 'h_prefix'):
            add('%s/len%02d' % (h[2:], L), 'sysN64', h, L, ['SYMBOLIC_CONTENT'], '|P|=%d, all bytes symbolic; internal buffer scaled to 64 bytes' % L, 'cadical' if L > 12 else 'minisat', memset=70)
    for (h, L) in (('h_exe', 9), ('h_prefix', 11)):
        add('%s/unscaled_len%02d' % (h[2:], L), 'sys', h, L, ['SYMBOLIC_CONTENT'], '|P|=%d, all bytes symbolic; code as shipped (4097-byte buffer)' % L, memset=4100)
    # long paths: the content is a fixed pattern (separators, spaces, non-ASCII bytes) except the last TAILSYM bytes, which are symbolic; lengths around the 256-byte mark (quick) and
    # around 512 / 1023 (thorough)
    for L in LONG.get(tier, LONG['quick']):
        for h in ('h_exe',):        # prefix_path at these lengths ran out of memory (12 GB) in propositional reduction: not covered
            big = L > 300
            add('%s/long%04d' % (h[2:], L), 'sysN1100' if big else 'sysN320', h, L, ['TAILSYM=6'], '|P|=%d, fixed pattern with the last 6 bytes symbolic; internal buffer scaled to %d bytes' % (L, 1100 if big else 320), 'cadical', memset=1110 if big else 330)
    # the boundary of the internal buffer, decided on the scaled configuration (buffer of SCALED_N bytes, i.e. PATH_MAX scaled to SCALED_N - 1): lengths below, at and above it; beyond
    # PATH_MAX the property says nothing and only memory safety is decided
    for L in (SCALED_N - 3, SCALED_N - 2, SCALED_N - 1, SCALED_N, SCALED_N + 1, SCALED_N + 4):
        for h in ('h_exe', 'h_prefix'):
            add('%s/scaled%d_len%02d' % (h[2:], SCALED_N, L), 'sysN%d' % SCALED_N, h, L, ['SYMBOLIC_CONTENT', 'BUFN=%d' % SCALED_N, 'PMAX=%d' % (SCALED_N - 1)], 'internal buffer scaled to %d bytes, |P|=%d, all bytes symbolic' % (SCALED_N, L), memset=40)
    ob = Ob('endianness', 'sys', 'h_endian', defines=['PLEN=1'], unwind=6, bound='-'); obs.append(ob)
    return obs
