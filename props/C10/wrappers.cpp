// C10 wrappers: xcomplex<T,T,ieee> arithmetic on raw bit patterns; FT/UT/TAG selected by macro instantiation for float and double.
#include <cstdint>
#include <cstring>
#include <complex>
#include <xtl/xcomplex.hpp>
#define W extern "C" __attribute__((noinline)) void
template <class F, class U> static inline F mkf(U b) { F f; std::memcpy(&f, &b, sizeof(F)); return f; }
template <class F, class U> static inline U bitsof(F f) { U b; std::memcpy(&b, &f, sizeof(F)); return b; }
#define CPX(F, U, T) \
typedef xtl::xcomplex<F, F, false> CN##T; typedef xtl::xcomplex<F, F, true> CI##T; typedef xtl::xcomplex<F&, F&, false> RN##T; typedef xtl::xcomplex<F&, F&, true> RI##T; \
W w_##T##_bin(uint64_t ieee, uint64_t op, U a, U b, U c, U d, U* out) { \
    F fa = mkf<F, U>(a), fb = mkf<F, U>(b), fc = mkf<F, U>(c), fd = mkf<F, U>(d); F x, y; \
    if (ieee) { CI##T z(fa, fb), w(fc, fd); auto r = op == 0 ? z + w : op == 1 ? z - w : op == 2 ? z * w : z / w; x = r.real(); y = r.imag(); } \
    else { CN##T z(fa, fb), w(fc, fd); auto r = op == 0 ? z + w : op == 1 ? z - w : op == 2 ? z * w : z / w; x = r.real(); y = r.imag(); } \
    out[0] = bitsof<F, U>(x); out[1] = bitsof<F, U>(y); } \
/* compound assignment through reference closures: the referents receive the result */ \
W w_##T##_cmpd_ref(uint64_t ieee, uint64_t op, U a, U b, U c, U d, U* out) { \
    F fa = mkf<F, U>(a), fb = mkf<F, U>(b), fc = mkf<F, U>(c), fd = mkf<F, U>(d); \
    if (ieee) { RI##T z(fa, fb); CI##T w(fc, fd); if (op == 0) z += w; else if (op == 1) z -= w; else if (op == 2) z *= w; else { CI##T v(fa, fb); v /= w; fa = v.real(); fb = v.imag(); } /* ieee /= on a reference closure does not compile (div returns std::complex) */ } \
    else { RN##T z(fa, fb); CN##T w(fc, fd); if (op == 0) z += w; else if (op == 1) z -= w; else if (op == 2) z *= w; else z /= w; } \
    out[0] = bitsof<F, U>(fa); out[1] = bitsof<F, U>(fb); out[2] = bitsof<F, U>(fc); out[3] = bitsof<F, U>(fd); } \
/* mixed real/complex forms in both operand orders: op 0..3 = z op s, 4..7 = s op z */ \
W w_##T##_scalar(uint64_t ieee, uint64_t op, U a, U b, U s, U* out) { \
    F fa = mkf<F, U>(a), fb = mkf<F, U>(b), fs = mkf<F, U>(s); F x, y; \
    if (ieee) { CI##T z(fa, fb); auto r = op == 0 ? z + fs : op == 1 ? z - fs : op == 2 ? z * fs : op == 3 ? z / fs : op == 4 ? fs + z : op == 5 ? fs - z : op == 6 ? fs * z : fs / z; x = r.real(); y = r.imag(); } \
    else { CN##T z(fa, fb); auto r = op == 0 ? z + fs : op == 1 ? z - fs : op == 2 ? z * fs : op == 3 ? z / fs : op == 4 ? fs + z : op == 5 ? fs - z : op == 6 ? fs * z : fs / z; x = r.real(); y = r.imag(); } \
    out[0] = bitsof<F, U>(x); out[1] = bitsof<F, U>(y); } \
/* == != unary minus conj real/imag std::complex round trip */ \
W w_##T##_misc(U a, U b, U c, U d, U* out) { \
    F fa = mkf<F, U>(a), fb = mkf<F, U>(b), fc = mkf<F, U>(c), fd = mkf<F, U>(d); CN##T z(fa, fb), w(fc, fd); RN##T rz(fa, fb); \
    out[0] = (z == w) | (U)(z != w) << 1 | (U)(rz == w) << 2 | (U)(z == CN##T(std::complex<F>(fc, fd))) << 3; \
    auto n = -z; out[1] = bitsof<F, U>(n.real()); out[2] = bitsof<F, U>(n.imag()); auto cj = xtl::conj(z); out[3] = bitsof<F, U>(cj.real()); out[4] = bitsof<F, U>(cj.imag()); \
    out[5] = bitsof<F, U>(xtl::real(z)); out[6] = bitsof<F, U>(xtl::imag(z)); std::complex<F> sc = z; CN##T back(sc); out[7] = bitsof<F, U>(back.real()); out[8] = bitsof<F, U>(back.imag()); \
    out[9] = bitsof<F, U>(xtl::real(fa)); out[10] = bitsof<F, U>(xtl::imag(fa)); std::complex<F> s2(fc, fd); out[11] = bitsof<F, U>(xtl::real(s2)); out[12] = bitsof<F, U>(xtl::imag(s2)); }
CPX(float, uint32_t, f)
CPX(double, uint64_t, d)
