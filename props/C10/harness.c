/* C10 harnesses.  Compiled per value type: -DFT=float|double -DUT=u32|u64 -DT=f|d.  Operands are raw bit patterns (all values incl. NaN,
 * infinities, signed zeros, subnormals).  Oracles: (a) the textbook formulas evaluated in cbmc's IEEE arithmetic in the same operation order
 * (that is also what std::complex without Annex G computes), bit-equal or both NaN; (b) the C99 Annex G class rules as universally
 * quantified statements; (c) exact scaling by powers of two. */
#include "harness.h"
#include "gen.h"
#define CAT_(a, b, c) a##b##c
#define CAT(a, b, c) CAT_(a, b, c)
#define WF(op) CAT(w_, T, _##op)
static FT F_(UT b) { FT f; memcpy(&f, &b, sizeof(FT)); return f; }
static UT B_(FT f) { UT b; memcpy(&b, &f, sizeof(FT)); return b; }
#define ADD(x, y) ((FT)((x) + (y)))
#define SUB(x, y) ((FT)((x) - (y)))
#define MUL(x, y) ((FT)((x) * (y)))
#define DIV(x, y) ((FT)((x) / (y)))
/* C99 F.2.1: "This specification does not define the behavior of signaling NaNs" - the Annex G rules are decided for quiet NaN parts */
#define QUIETBIT (sizeof(FT) == 4 ? (UT)0x00400000 : (UT)0x0008000000000000ULL)
#define NOT_SNAN(bits, x) (!ISNAN(x) || ((bits) & QUIETBIT))
#define ISNAN(x) ((x) != (x))
#define ISINF(x) (!ISNAN(x) && ISNAN((x) - (x)))
#define ISFIN(x) (!ISNAN((x) - (x)))
#define SAME(r, e) (ISNAN(e) ? ISNAN(r) : B_(r) == B_(e))
#define CINF(x, y) (ISINF(x) || ISINF(y))                     /* Annex G: an infinity has at least one infinite part (the other may be NaN) */
#define CFIN(x, y) (ISFIN(x) && ISFIN(y))
#define CZERO(x, y) ((x) == 0 && (y) == 0)
#define CNAN(x, y) (!CINF(x, y) && (ISNAN(x) || ISNAN(y)))
#define INPUTS IN(UT, ab); IN(UT, bb); IN(UT, cb); IN(UT, db); FT a = F_(ab), b = F_(bb), c = F_(cb), d = F_(db); UT out[13]; for (int i_ = 0; i_ < 13; i_++) out[i_] = 0;

void h_struct(void) {   /* + - and the non-IEEE * / are exactly the textbook formulas; IEEE * / coincide with them whenever the textbook result is not NaN+NaN i */
  INPUTS; IN(u8, op0); IN(u8, ieee0);
#ifdef OPFIX
  u8 op = OPFIX, ieee = IEEEFIX; (void)op0; (void)ieee0;     /* concrete per obligation: one operator, one mode */
#else
  u8 op = op0, ieee = ieee0; VASSUME(op < 4 && ieee < 2);
#endif
#ifdef AXISFIX   /* quick tier: the right operand on an axis (AXISFIX 1: purely imaginary, 2: real) - most products fold, so the multiplier/divider identities are cheap there */
  VASSUME(AXISFIX == 1 ? (cb << 1) == 0 : (db << 1) == 0);
#endif
#ifdef REFCLOSURE
  WF(cmpd_ref)(ieee, op, ab, bb, cb, db, out);              /* compound assignment through reference closures: the referents receive the result */
  VASSERT(out[2] == cb && out[3] == db, "compound assignment leaves the right operand alone");
#else
  WF(bin)(ieee, op, ab, bb, cb, db, out);
#endif
  FT x = F_(out[0]), y = F_(out[1]), ex, ey;
  if (op == 0) { ex = ADD(a, c); ey = ADD(b, d); } else if (op == 1) { ex = SUB(a, c); ey = SUB(b, d); }
  else if (op == 2) { ex = SUB(MUL(a, c), MUL(b, d)); ey = ADD(MUL(a, d), MUL(b, c)); }
  else { FT e = ADD(MUL(c, c), MUL(d, d)); ex = DIV(ADD(MUL(c, a), MUL(d, b)), e); ey = DIV(SUB(MUL(c, b), MUL(d, a)), e); }
  if (op < 2 || !ieee) VASSERT(SAME(x, ex) && SAME(y, ey), "+ - and the textbook * / are the component formulas evaluated in IEEE arithmetic (same result as std::complex without Annex G)");
  else if (op == 2 && !(ISNAN(ex) && ISNAN(ey))) VASSERT(SAME(x, ex) && SAME(y, ey), "IEEE multiplication equals the textbook product unless that is NaN+NaN i");
  WITNESS("nan_operand", ISNAN(a)); WITNESS("inf_operand", ISINF(c)); WITNESS("ieee_mul_finite", ieee && op == 2 && CFIN(a, b) && CFIN(c, d) && !ISNAN(ex));
  HARNESS_END();
}
void h_scalar(void) {   /* mixed real/complex forms in both operand orders: the scalar acts as (s, 0) resp. multiplies/divides both parts */
  INPUTS; IN(u8, op); VASSUME(op < 8); (void)d; (void)db;
  WF(scalar)(0, op, ab, bb, cb, out);
  FT x = F_(out[0]), y = F_(out[1]), ex, ey, s = c;
  switch (op) {
    case 0: ex = a + s; ey = b; break; case 1: ex = a - s; ey = b; break; case 2: ex = a * s; ey = b * s; break; case 3: ex = a / s; ey = b / s; break;
    case 4: ex = s + a; ey = b; break; case 5: ex = s - a; ey = (FT)0 - b; break;
    case 6: ex = s * a - (FT)0 * b; ey = s * b + (FT)0 * a; break;
    default: { FT e = a * a + b * b; ex = (a * s + b * (FT)0) / e; ey = (a * (FT)0 - b * s) / e; } break;
  }
  if (CFIN(a, b) && ISFIN(s) && !(op == 3 && s == 0) && !(op == 7 && CZERO(a, b)) && !ISNAN(ex) && !ISNAN(ey) && ex != 0 && ey != 0)
    VASSERT(x == ex && y == ey, "mixed real/complex operators equal complex arithmetic with the real operand as (s, 0)");
  HARNESS_END();
}
/* scalar on the left: `s op z` is computed by promoting s to (s, 0) - in both multiplier configurations it must equal the complex/complex operator on (s, 0) bit for bit
 * (two runs of the same circuits: cheap, so this is in the quick tier; it is what ties s / z to the Annex G division) */
void h_scalar_promote(void) {
  INPUTS; IN(u8, op); IN(u8, ieee); VASSUME(op < 4 && ieee < 2); (void)d; (void)db;
#ifdef SOPFIX
  op = SOPFIX;
#endif
#ifdef SIEEEFIX
  ieee = SIEEEFIX;
#endif
  UT o2[13]; for (int i = 0; i < 13; i++) o2[i] = 0;
  WF(scalar)(ieee, 4 + op, ab, bb, cb, out);
  WF(bin)(ieee, op, cb, 0, ab, bb, o2);
  VASSERT(SAME(F_(out[0]), F_(o2[0])) && SAME(F_(out[1]), F_(o2[1])), "s op z equals (s, 0) op z (scalar left operand, both multiplier configurations)");
  WITNESS("finite_operands", CFIN(a, b) && ISFIN(c));
  HARNESS_END();
}
void h_misc(void) {
  INPUTS;
  WF(misc)(ab, bb, cb, db, out);
  int eq = (a == c) && (b == d);
  VASSERT((out[0] & 1) == (UT)eq && ((out[0] >> 1) & 1) == (UT)!eq && ((out[0] >> 2) & 1) == (UT)eq && ((out[0] >> 3) & 1) == (UT)eq, "== compares both parts (value, reference and std::complex operands); != is its negation");
  VASSERT(SAME(F_(out[1]), -a) && SAME(F_(out[2]), -b), "unary minus negates both parts (signed zeros included)");
  VASSERT(SAME(F_(out[3]), a) && SAME(F_(out[4]), -b), "conj negates the imaginary part");
  VASSERT(out[5] == ab && out[6] == bb && out[7] == ab && out[8] == bb, "real()/imag() and the round trip through std::complex keep the bit patterns");
  VASSERT(out[9] == ab && out[10] == 0 && out[11] == cb && out[12] == db, "real()/imag() free functions on scalars and std::complex");
  HARNESS_END();
}
/* ---- C99 Annex G class rules (ieee_compliant = true) ---- */
void h_annexg_mul(void) {
  INPUTS; VASSUME(NOT_SNAN(ab, a) && NOT_SNAN(bb, b) && NOT_SNAN(cb, c) && NOT_SNAN(db, d));
  WF(bin)(1, 2, ab, bb, cb, db, out);
  FT x = F_(out[0]), y = F_(out[1]);
#ifdef KF_EXCLUDE_KF_C10_1
  VASSUME(!(CINF(c, d) && !CINF(a, b)));
#endif
  if (CINF(a, b) && (CINF(c, d) || (CFIN(c, d) && !CZERO(c, d)))) VASSERT(CINF(x, y), "Annex G: an infinity times a non-zero finite value or an infinity is an infinity");
  if (CINF(c, d) && (CINF(a, b) || (CFIN(a, b) && !CZERO(a, b)))) VASSERT(CINF(x, y), "Annex G: a non-zero finite value or an infinity times an infinity is an infinity");
  WITNESS("inf_with_nan_part", ISINF(a) && ISNAN(b)); WITNESS("recovery_needed", CINF(a, b) && CFIN(c, d) && ISNAN(a * c - b * d) && ISNAN(a * d + b * c));
  HARNESS_END();
}
void h_annexg_div(void) {
  INPUTS; IN(u8, rule); VASSUME(rule < 4); VASSUME(NOT_SNAN(ab, a) && NOT_SNAN(bb, b) && NOT_SNAN(cb, c) && NOT_SNAN(db, d));
#ifdef RULEFIX
  VASSUME(rule == RULEFIX);
#endif
  /* each rule is decided on its own operand classes (assumed before the call so the query only carries that class) */
  if (rule == 0) VASSUME(CINF(a, b) && CFIN(c, d));
  else if (rule == 1) {
    VASSUME(CFIN(a, b) && CINF(c, d));
    FT lim1 = sizeof(FT) == 8 ? (FT)1e300 : (FT)1e30;   /* KF-C10-3: dividend components near the overflow threshold */
#ifdef KF_EXCLUDE_KF_C10_3
    VASSUME(a < lim1 && a > -lim1 && b < lim1 && b > -lim1);
#endif
#ifdef KF_ONLY_KF_C10_3
    VASSUME(!(a < lim1 && a > -lim1 && b < lim1 && b > -lim1));
#endif
    (void)lim1;
  }
  else if (rule == 2) VASSUME((CINF(a, b) || (CFIN(a, b) && !CZERO(a, b))) && CZERO(c, d));
  else { FT lim = (FT)1e30; if (sizeof(FT) == 8) lim = (FT)1e300; VASSUME(CFIN(a, b) && CFIN(c, d) && !CZERO(c, d) && a < lim && a > -lim && b < lim && b > -lim); }   /* finite, well-scaled dividend */
  WF(bin)(1, 3, ab, bb, cb, db, out);
  FT x = F_(out[0]), y = F_(out[1]);
  if (rule == 0) VASSERT(CINF(x, y), "Annex G: an infinity divided by a finite value is an infinity");
  else if (rule == 1) VASSERT(CZERO(x, y), "Annex G: a finite value divided by an infinity is a zero");
  else if (rule == 2) VASSERT(CINF(x, y), "Annex G: a non-zero finite value or an infinity divided by a zero is an infinity");
  else VASSERT(!ISNAN(x) && !ISNAN(y), "finite operands never yield NaN except 0/0");
  HARNESS_END();
}
void h_scaling(void) {   /* divisor (+-2^k, 0) of any normal magnitude: the quotient is exactly (a / 2^k, b / 2^k) when those are normal numbers */
  IN(UT, ab); IN(UT, bb); IN(UT, cb); FT a = F_(ab), b = F_(bb), c = F_(cb); UT out[2] = {0, 0};
  const UT fracmask = sizeof(FT) == 4 ? (UT)0x7FFFFF : (UT)0xFFFFFFFFFFFFFULL; const UT expmask = sizeof(FT) == 4 ? (UT)0x7F800000 : (UT)0x7FF0000000000000ULL;
  VASSUME((cb & fracmask) == 0 && (cb & expmask) != 0 && (cb & expmask) != expmask);        /* c = +-2^k, normal */
  VASSUME((ab & expmask) != 0 && (ab & expmask) != expmask && (bb & expmask) != 0 && (bb & expmask) != expmask);
  FT ex = a / c, ey = b / c;
  VASSUME((B_(ex) & expmask) != 0 && (B_(ex) & expmask) != expmask && (B_(ey) & expmask) != 0 && (B_(ey) & expmask) != expmask);   /* quotients normal */
  WF(bin)(1, 3, ab, bb, cb, 0, out);
  VASSERT(out[0] == B_(ex) && out[1] == B_(ey), "division by a power of two of extreme but normal magnitude returns the exactly scaled quotient");
  WITNESS("huge_divisor", (cb & expmask) > (expmask / 4) * 3); WITNESS("tiny_divisor", (cb & expmask) < expmask / 8);
  HARNESS_END();
}
