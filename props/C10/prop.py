"""C10 - xcomplex arithmetic is complex arithmetic; IEEE mode follows C99 Annex G."""
ID = 'C10'
CLAIM = ('xcomplex<T,T,ieee> for T in {float, double}: + - * / on ALL operand bit patterns against the textbook component formulas in IEEE arithmetic (the std::complex-without-Annex-G result), value vs reference '
         'closures and compound assignment through referents, mixed real/complex forms in both orders, == != unary minus conj real/imag std::complex round trip; ieee_compliant=true: the C99 Annex G class rules '
         'for * and / as universally quantified statements (infinity = any infinite part), finite/finite never NaN except 0/0 for well-scaled dividends, exact quotient for power-of-two divisors over the whole normal range')
BOUNDS = {'quick': 'all operand bit patterns per query (2^128 for float); float: + - formula identity, misc, power-of-two scaling, the Annex G rule queries; double: misc', 'thorough': 'additionally (float and double) the * and / formula identities, reference-closure compound forms, mixed scalar forms, and every query for double'}
NOT_COVERED = ['a quantitative ULP bound for general well-scaled operands (a theorem of numerical analysis about the textbook formulas, not re-proved by the solver)',
               'the elementary functions forwarded to std::complex / libm (exp, sin, pow, ...): libm is not in the IR', 'xcomplex<T&,T&,true> /= (does not compile: the IEEE divider returns std::complex)',
               'fused multiply-add contraction: clang emits llvm.fmuladd, translated as separate multiply and add (what the baseline x86-64 build without -mfma executes)']
ASSUMPTIONS = ['C99 F.2.1: behaviour for signaling NaNs is not defined by Annex F/G; the Annex G rule queries assume quiet NaN parts (glibc fmax turns a signaling NaN into NaN, so (sNaN, inf) is not recognised as an infinity by the scaled division)', 'logb/scalbn/fmax/fabs/copysign are bit-level models in rt/verif_rt.c, validated against glibc on 3e6 random arguments', 'cbmc IEEE-754 binary32/binary64 arithmetic is the oracle arithmetic']
INERT = []
TYPES = [('f', 'float', 'u32'), ('d', 'double', 'u64')]


def defs(t, ft, ut): return ['T=%s' % t, 'FT=%s' % ft, 'UT=%s' % ut]


def units(tier):
    tv = []
    for t, ft, ut in TYPES:
        for h in ('h_struct', 'h_annexg_mul', 'h_annexg_div', 'h_scaling', 'h_misc', 'h_scalar', 'h_scalar_promote'): tv.append((h, defs(t, ft, ut)))
    return [Unit('cpx', 'wrappers.cpp', ['harness.c'], tv=tv, tv_iters=200000)]


def obligations(tier):
    obs = []
    Q = tier == 'quick'
    for t, ft, ut in TYPES:
        d = defs(t, ft, ut)
        for op, name in enumerate(['add', 'sub', 'mul', 'div']):
            for ieee in (0, 1):
                if ieee and name == 'div': continue      # the IEEE divider is scaled: it is decided by the Annex G rules and the scaling query, not by formula identity
                for ref in (0, 1):
                    if Q and (t == 'd' or ref or ieee or name in ('mul', 'div')): continue      # quick: float + and - formula identity; multiplier/divider identities take 5-10 min each
                    obs.append(Ob('%s/struct_%s%s%s' % (ft, name, '_ieee' if ieee else '', '_refclosure' if ref else ''), 'cpx', 'h_struct', defines=d + ['OPFIX=%d' % op, 'IEEEFIX=%d' % ieee] + (['REFCLOSURE'] if ref else []),
                                  unwind=60, backend='cadical', timeout=300 if Q else 3600, bound='all operand bit patterns', min_witnesses=1))
        if t == 'f':
            for op, name in ((2, 'mul'),):      # the divider identity on an axis still gave no verdict in 300 s
                for ax, an in ((1, 'imag_axis'), (2, 'real_axis')):
                    obs.append(Ob('%s/struct_%s_%s' % (ft, name, an), 'cpx', 'h_struct', defines=d + ['OPFIX=%d' % op, 'IEEEFIX=0', 'AXISFIX=%d' % ax], unwind=60, backend='cadical', timeout=300 if Q else 3600,
                                  bound='right operand purely imaginary / real, everything else any bit pattern', min_witnesses=0))
        if t == 'f' or not Q:
            for op, name in enumerate(['add', 'sub', 'mul', 'div', 'mul_ieee', 'div_ieee']):
                if name.startswith('div'): continue      # two runs of the float divider: no verdict in 300 s even as a same-circuit equivalence; s / z is only decided by the thorough-tier h_scalar
                obs.append(Ob('%s/scalar_left_%s' % (ft, name), 'cpx', 'h_scalar_promote', defines=d + ['SOPFIX=%d' % (op if op < 4 else op - 2), 'SIEEEFIX=%d' % (op >= 4)] if op >= 2 else d + ['SOPFIX=%d' % op], unwind=60, backend='cadical', timeout=300 if Q else 3600, bound='all operand bit patterns, both multiplier configurations', min_witnesses=0))
        if Q and t == 'f':
            # bug hunting only: the float divider identities and the mixed-operand harness are proved in the thorough tier (10 min to 1 h each); a counterexample, when one exists, is found in
            # minutes (seeds C10-m6, m7: under 3 min), so the quick tier searches for one for 150 s and records "undecided" otherwise - never "held"
            for nm, hn, dd in (('hunt_struct_div', 'h_struct', ['OPFIX=3', 'IEEEFIX=0']), ('hunt_scalar', 'h_scalar', [])):
                ob = Ob('%s/%s' % (ft, nm), 'cpx', hn, defines=d + dd, unwind=60, backend='cadical', timeout=150, bound='all operand bit patterns; counterexample search only', min_witnesses=0); ob.hunt = True; obs.append(ob)
        obs.append(Ob('%s/misc' % ft, 'cpx', 'h_misc', defines=d, unwind=60, timeout=300 if Q else 1800, bound='all operand bit patterns'))
        if not Q: obs.append(Ob('%s/scalar' % ft, 'cpx', 'h_scalar', defines=d, unwind=60, backend='cadical', timeout=3600, bound='all operand bit patterns'))
        if t == 'f' or not Q:
            obs.append(Ob('%s/scaling' % ft, 'cpx', 'h_scaling', defines=d, unwind=60, backend='cadical', timeout=300 if Q else 3600, bound='all normal dividends, all power-of-two divisors', min_witnesses=2))
            obs.append(Ob('%s/annexg_mul' % ft, 'cpx', 'h_annexg_mul', defines=d, unwind=60, backend='cadical', timeout=300 if Q else 3600, bound='all operand bit patterns (quiet NaNs)', min_witnesses=2))
            for r, name in enumerate(['inf_by_finite', 'finite_by_inf', 'by_zero', 'finite_never_nan']):
                obs.append(Ob('%s/annexg_div_%s' % (ft, name), 'cpx', 'h_annexg_div', defines=d + ['RULEFIX=%d' % r], unwind=60, backend='cadical', timeout=300 if Q else 3600, bound='all operands of the rule\'s classes'))
    return obs
