"""C09 - half math functions (the part a solver can decide; see DESIGN.md C09 for what is NOT claimed)."""
ID = 'C09'
CLAIM = ('PARTIAL. Decided for ALL arguments: ceil floor trunc round rint nearbyint lround lrint llround llrint frexp ldexp scalbn scalbln modf ilogb logb nextafter fdim fmax fmin against integer definitions / cbmc IEEE '
         'semantics; and for every function incl. the transcendental ones: the C99 Annex F NaN propagation (all NaN payloads), the special values at zeros, one and infinities, domain errors, and (cbrt, sin, cos, tan, atan, '
         'sinh, cosh, tanh) exact odd/even symmetry for every argument. NOT claimed: correct rounding / 1-ULP accuracy of the transcendental functions on ordinary finite arguments - there is no SMT theory of those functions')
BOUNDS = {'quick': 'all 2^16 arguments (2^32 pairs for binary functions); scalbn exponents within +-100000; the symmetry queries are in the thorough tier', 'thorough': 'eight odd/even symmetry queries over all arguments; the binary-function NaN ladder'}
NOT_COVERED = ['accuracy (correct rounding, 1 ULP) of exp exp2 expm1 log log10 log2 log1p sin cos tan asin acos atan sinh cosh tanh asinh acosh atanh erf erfc lgamma tgamma pow atan2 on ordinary finite arguments: not decidable with an SMT solver '
               '(a reference would have to be a table computed by another implementation, i.e. enumeration, a different technique); a change confined to the polynomial/CORDIC core of such a function is NOT detected',
               'fmod, remainder, remquo, hypot, cbrt correct rounding (long division / root loops: planned as integer inequalities, not built)']
ASSUMPTIONS = ['cbmc _Float16 conversion and subtraction are IEEE 754 (used for from_int and fdim)']


NANFUNCS = 'exp exp2 expm1 log log10 log2 log1p sqrt cbrt sin cos tan asin acos atan sinh cosh tanh asinh acosh atanh erf erfc lgamma tgamma'.split()


def units(tier):
    return [Unit('hmath', 'wrappers.cpp', ['harness.c'], tv=[(h, []) for h in ('h_rounding', 'h_lround', 'h_frexp_ldexp', 'h_modf_logb', 'h_nextafter', 'h_fdim_minmax', 'h_nan_ladder', 'h_special_values', 'h_symmetry', 'h_sincos')], tv_iters=20000, inc=('C08',))]


def obligations(tier):
    obs = []
    for h in ('h_rounding', 'h_lround', 'h_frexp_ldexp', 'h_modf_logb', 'h_nextafter', 'h_fdim_minmax'):
        ob = Ob(h[2:], 'hmath', h, unwind=40, timeout=600, bound='all arguments', min_witnesses=1); ob.harness_unwind = 70; obs.append(ob)
    obs.append(Ob('annexf_special', 'hmath', 'h_special_values', unwind=40, timeout=600, bound='zeros, one, infinities, domain errors of every function'))
    obs.append(Ob('pow_sign', 'hmath', 'h_pow_sign', unwind=40, timeout=600, backend='cadical', bound='all negative finite bases, all finite non-zero exponents', min_witnesses=2))
    for f in NANFUNCS:
        obs.append(Ob('annexf_nan/' + f, 'hmath', 'h_nan_one', defines=['FN=' + f, 'ODDFN=0'], unwind=40, timeout=300, bound='all NaN payloads'))
    if tier == 'thorough':
        # equivalence of the sincos entry point with sin and cos (seed C09-m4): no verdict within 900 s on cadical in the quick budget, so thorough tier only
        obs.append(Ob('sincos_equals_sin_cos', 'hmath', 'h_sincos', unwind=40, timeout=7200, backend='kissat', bound='all arguments'))
        obs.append(Ob('annexf_nan_binary', 'hmath', 'h_nan_ladder', unwind=40, timeout=3600, backend='cadical', bound='all NaN payloads, every function incl. atan2/hypot/pow'))
        for f, odd in (('sin', 1), ('cos', 0), ('tan', 1), ('atan', 1), ('sinh', 1), ('cosh', 0), ('tanh', 1), ('cbrt', 1)):
            obs.append(Ob('symmetry/' + f, 'hmath', 'h_sym_one', defines=['FN=' + f, 'ODDFN=%d' % odd], unwind=40, timeout=3600, backend='cadical', bound='all arguments'))
    return obs
