/* C09 harnesses (the solver-decidable part of the property, see DESIGN.md C09): exact/algebraic functions against integer definitions over all 2^16
 * arguments (2^32 pairs), and the C99 Annex F special-value ladder of every function (incl. the transcendental ones) on symbolic members of the special classes. */
#include "harness.h"
#include "gen.h"
#include "spec_half.h"
static _Float16 H(u16 b) { _Float16 h; memcpy(&h, &b, 2); return h; }
static u16 HB(_Float16 h) { u16 b; memcpy(&b, &h, 2); return b; }
#define ISNANH(b) (((b) & 0x7FFF) > 0x7C00)
#define ISINFH(b) (((b) & 0x7FFF) == 0x7C00)
/* exact value of a finite half scaled by 2^24, as a signed integer */
static i64 scaled(u16 h) { u32 a = h & 0x7FFF, e = a >> 10, m = a & 0x3FF; i64 v = e ? ((i64)(m | 0x400) << (e - 1)) : (i64)m; return (h & 0x8000) ? -v : v; }
static u16 from_int(i64 n, u16 sign_if_zero) { if (n == 0) return sign_if_zero & 0x8000; return HB((_Float16)(i32)n); }   /* |n| <= 2048: exactly representable */
#define ONE ((i64)1 << 24)
static i64 fl(i64 v) { return v >> 24; }                                                 /* floor(v / 2^24) */
void h_rounding(void) {
  IN(u16, a); IN(u8, which); VASSUME(which < 6);
  u16 r = which == 0 ? w_ceil(a) : which == 1 ? w_floor(a) : which == 2 ? w_trunc(a) : which == 3 ? w_round(a) : which == 4 ? w_rint(a) : w_nearbyint(a);
  if (ISNANH(a)) VASSERT(ISNANH(r), "NaN in, NaN out");
  else if ((a & 0x7FFF) >= 0x6400) VASSERT(r == a, "values of magnitude >= 1024 (and infinities) are already integral");
  else {
    i64 v = scaled(a), n;
    i64 f = fl(v), c = -fl(-v), t = v < 0 ? c : f;
    if (which == 0) n = c; else if (which == 1) n = f; else if (which == 2) n = t;
    else if (which == 3) n = v < 0 ? -fl(-v + ONE / 2) : fl(v + ONE / 2);                 /* halfway cases away from zero */
    else { i64 q = fl(v), rem = v - q * ONE; n = rem > ONE / 2 ? q + 1 : rem < ONE / 2 ? q : ((q & 1) ? q + 1 : q); }   /* to nearest, ties to even */
    VASSERT(r == from_int(n, a), "ceil/floor/trunc/round/rint/nearbyint return the mathematically defined integer (zero results keep the sign of the argument)");
  }
  WITNESS("tie", !ISNANH(a) && (a & 0x7FFF) < 0x6400 && (scaled(a) & (ONE - 1)) == ONE / 2); WITNESS("negative_small", a > 0x8000 && a < 0xB800); WITNESS("minus_zero", a == 0x8000);
  HARNESS_END();
}
void h_lround(void) {
  IN(u16, a); IN(u8, which); VASSUME(which < 4 && (a & 0x7FFF) < 0x7C00);                 /* C defines the result for finite arguments (all fit a long) */
  i64 r = which == 0 ? w_lround(a) : which == 1 ? w_lrint(a) : which == 2 ? w_llround(a) : w_llrint(a);
  i64 v = scaled(a), n;
  if (which == 0 || which == 2) n = v < 0 ? -fl(-v + ONE / 2) : fl(v + ONE / 2);
  else { i64 q = fl(v), rem = v - q * ONE; n = rem > ONE / 2 ? q + 1 : rem < ONE / 2 ? q : ((q & 1) ? q + 1 : q); }
  VASSERT(r == n, "lround/llround round halfway cases away from zero, lrint/llrint to even");
  HARNESS_END();
}
void h_frexp_ldexp(void) {
  IN(u16, a); IN(i32, n); IN(u8, which); VASSUME(which < 4);
  hunp u = h_unpack(a);
  if (which == 0) {
    i32 e = 12345; u16 r = w_frexp(a, (u32*)&e);
    if (u.cls == 1) { VASSERT(e == u.e + 11, "frexp exponent: |x| = m * 2^e with m in [0.5, 1)"); VASSERT(r == ((a & 0x8000) | (14 << 10) | (u.m & 0x3FF)), "frexp significand keeps the fraction bits at exponent -1"); }
    else if (u.cls == 0) VASSERT(r == a && e == 0, "frexp(+-0) = +-0 with exponent 0");
    else if (u.cls == 2) VASSERT(r == a, "frexp(+-inf) = +-inf");
    else VASSERT(ISNANH(r), "frexp(NaN) = NaN");
  } else {
    u16 r = which == 1 ? w_ldexp(a, n) : which == 2 ? w_scalbn(a, n) : w_scalbln(a, (i64)n);
    VASSUME(n > -100000 && n < 100000);
    if (u.cls == 1) VASSERT(r == h_round_pack(u.sign, u.m, u.e + n, 0) || (n > 60 && r == ((a & 0x8000) | 0x7C00)) || (n < -60 && r == (a & 0x8000)), "ldexp/scalbn/scalbln return x * 2^n correctly rounded (overflow to infinity, gradual underflow)");
    else if (u.cls == 3) VASSERT(ISNANH(r), "NaN in, NaN out"); else VASSERT(r == a, "zeros and infinities are returned unchanged");
  }
  WITNESS("subnormal_arg", u.cls == 1 && (a & 0x7C00) == 0); WITNESS("underflow_rounds", which == 1 && u.cls == 1 && n < 0 && n > -20);
  HARNESS_END();
}
void h_modf_logb(void) {
  IN(u16, a); IN(u8, which); VASSUME(which < 3);
  hunp u = h_unpack(a);
  if (which == 0) {
    u16 ip = 0x1234; u16 r = w_modf(a, &ip);
    if (u.cls == 3) VASSERT(ISNANH(r) && ISNANH(ip), "modf(NaN)");
    else if (u.cls == 2) VASSERT(ip == a && r == (a & 0x8000), "modf(+-inf) = +-0, integral part +-inf");
    else { i64 v = scaled(a), t = v < 0 ? -fl(-v) : fl(v), frac = v - t * ONE;
           u16 ei = (a & 0x7FFF) >= 0x6400 ? a : from_int(t, a);
           VASSERT(ip == ei, "modf integral part is trunc(x) with the sign of x");
           /* fractional part: exact, has the sign of x */
           u16 ef = frac == 0 ? (a & 0x8000) : h_round_pack(a >> 15, (u64)(frac < 0 ? -frac : frac), -24, 0);
           VASSERT(r == ef, "modf fractional part is x - trunc(x), exact, with the sign of x"); }
  } else if (which == 1) {
    i32 r = w_ilogb(a);
    if (u.cls == 1) VASSERT(r == u.e + 10, "ilogb is floor(log2 |x|)");
  } else {
    u16 r = w_logb(a);
    if (u.cls == 1) VASSERT(r == HB((_Float16)(i32)(u.e + 10)), "logb is floor(log2 |x|) as a half");
    else if (u.cls == 0) VASSERT(r == 0xFC00, "logb(+-0) = -inf"); else if (u.cls == 2) VASSERT(r == 0x7C00, "logb(+-inf) = +inf"); else VASSERT(ISNANH(r), "logb(NaN) = NaN");
  }
  HARNESS_END();
}
void h_nextafter(void) {
  IN(u16, a); IN(u16, b);
  u16 r = w_nextafter(a, b);
  if (ISNANH(a) || ISNANH(b)) VASSERT(ISNANH(r), "nextafter with a NaN operand is NaN");
  else {
    float x = (float)H(a), y = (float)H(b);
    if (x == y) VASSERT(r == b, "nextafter(x, y) = y when they compare equal");
    else { u16 e; if ((a & 0x7FFF) == 0) e = (y > x ? 0x0001 : 0x8001); else { int up = (y > x) == !(a & 0x8000); e = up ? a + 1 : a - 1; } VASSERT(r == e, "nextafter steps to the adjacent binary16 value in the direction of y"); }
  }
  WITNESS("to_infinity", r == 0x7C00 && a == 0x7BFF); WITNESS("across_zero", (a & 0x7FFF) == 0 && (r & 0x7FFF) == 1);
  HARNESS_END();
}
void h_fdim_minmax(void) {
  IN(u16, a); IN(u16, b); IN(u8, which); VASSUME(which < 3);
  u16 r = which == 0 ? w_fdim(a, b) : which == 1 ? w_fmax(a, b) : w_fmin(a, b);
  float x = (float)H(a), y = (float)H(b);
  if (which == 0) { if (ISNANH(a) || ISNANH(b)) VASSERT(ISNANH(r), "fdim with a NaN operand is NaN"); else if (x > y) VASSERT(r == HB(H(a) - H(b)), "fdim is the correctly rounded difference when x > y"); else VASSERT(r == 0, "fdim is +0 when x <= y"); }
  else {
    if (ISNANH(a) && ISNANH(b)) VASSERT(ISNANH(r), "fmax/fmin of two NaNs is NaN");
    else if (ISNANH(a)) VASSERT(r == b, "fmax/fmin ignore a NaN operand"); else if (ISNANH(b)) VASSERT(r == a, "fmax/fmin ignore a NaN operand");
    else if (x == y) VASSERT(r == a || r == b, "fmax/fmin of equal values returns one of them");
    else VASSERT(r == ((which == 1) == (x > y) ? a : b), "fmax/fmin return the larger/smaller operand");
  }
  HARNESS_END();
}
/* Annex F special values: each function on the members of a special class */
#define NANOUT(f) VASSERT(ISNANH(w_##f(a)), "Annex F: " #f "(NaN) is NaN")
void h_nan_ladder(void) {
  IN(u16, a); VASSUME(ISNANH(a));
  NANOUT(exp); NANOUT(exp2); NANOUT(expm1); NANOUT(log); NANOUT(log10); NANOUT(log2); NANOUT(log1p); NANOUT(sqrt); NANOUT(cbrt); NANOUT(sin); NANOUT(cos); NANOUT(tan); NANOUT(asin); NANOUT(acos); NANOUT(atan);
  NANOUT(sinh); NANOUT(cosh); NANOUT(tanh); NANOUT(asinh); NANOUT(acosh); NANOUT(atanh); NANOUT(erf); NANOUT(erfc); NANOUT(lgamma); NANOUT(tgamma);
  IN(u16, b);
  VASSERT(ISNANH(w_atan2(a, b)) && ISNANH(w_atan2(b, a)) && ISNANH(w_hypot(a, b)) == !ISINFH(b), "Annex F: atan2 with a NaN operand is NaN; hypot(NaN, y) is NaN unless y is infinite");
  VASSERT(w_pow(a, 0x0000) == 0x3C00 && w_pow(a, 0x8000) == 0x3C00 && w_pow(0x3C00, a) == 0x3C00, "Annex F: pow(x, +-0) = 1 and pow(1, y) = 1 even for NaN");
  HARNESS_END();
}
void h_special_values(void) {
  IN(u8, s); VASSUME(s < 2); u16 z = s ? 0x8000 : 0x0000, inf = s ? 0xFC00 : 0x7C00;     /* +-0 and +-inf */
  VASSERT(w_exp(0xFC00) == 0 && w_exp(0x7C00) == 0x7C00 && w_exp(z) == 0x3C00 && w_exp2(0xFC00) == 0 && w_exp2(z) == 0x3C00 && w_expm1(z) == z && w_expm1(0xFC00) == 0xBC00, "Annex F: exp family at zeros and infinities");
  VASSERT(w_log(z) == 0xFC00 && w_log10(z) == 0xFC00 && w_log2(z) == 0xFC00 && w_log(0x3C00) == 0 && w_log(0x7C00) == 0x7C00 && ISNANH(w_log(0xBC00)) && ISNANH(w_log(0xFC00)) && w_log1p(z) == z && w_log1p(0xBC00) == 0xFC00, "Annex F: log family at zeros, one, infinities and negative arguments");
  VASSERT(w_sqrt(z) == z && w_sqrt(0x7C00) == 0x7C00 && ISNANH(w_sqrt(0xFC00)) && w_cbrt(z) == z && w_cbrt(inf) == inf, "Annex F: sqrt/cbrt");
  VASSERT(w_sin(z) == z && ISNANH(w_sin(inf)) && w_cos(z) == 0x3C00 && ISNANH(w_cos(inf)) && w_tan(z) == z && ISNANH(w_tan(inf)), "Annex F: sin/cos/tan at zeros and infinities");
  VASSERT(w_asin(z) == z && w_acos(0x3C00) == 0 && w_atan(z) == z && ISNANH(w_asin(0x4000)) && ISNANH(w_acos(0xC000)), "Annex F: inverse trigonometric functions");
  VASSERT(w_sinh(z) == z && w_sinh(inf) == inf && w_cosh(z) == 0x3C00 && w_cosh(inf) == 0x7C00 && w_tanh(z) == z && w_tanh(inf) == (s ? 0xBC00 : 0x3C00), "Annex F: hyperbolic functions");
  VASSERT(w_asinh(z) == z && w_asinh(inf) == inf && w_acosh(0x3C00) == 0 && w_acosh(0x7C00) == 0x7C00 && ISNANH(w_acosh(0x3800)) && w_atanh(z) == z && w_atanh(s ? 0xBC00 : 0x3C00) == inf && ISNANH(w_atanh(0x4000)), "Annex F: inverse hyperbolic functions");
  VASSERT(w_erf(z) == z && w_erf(inf) == (s ? 0xBC00 : 0x3C00) && w_erfc(0x7C00) == 0 && w_erfc(0xFC00) == 0x4000 && w_lgamma(0x3C00) == 0 && w_lgamma(0x4000) == 0 && w_lgamma(inf) == 0x7C00 && w_tgamma(0x7C00) == 0x7C00 && ISNANH(w_tgamma(0xFC00)) && w_tgamma(z) == inf, "Annex F: erf/erfc/lgamma/tgamma");
  VASSERT(w_hypot(inf, 0x3C00) == 0x7C00 && w_hypot(z, 0x4200) == 0x4200 && w_atan2(z, 0x3C00) == z && w_pow(0x4000, 0x7C00) == 0x7C00 && w_pow(0x4000, 0xFC00) == 0 && w_pow(0xBC00, 0x7C00) == 0x3C00, "Annex F: hypot/atan2/pow special cases");
  HARNESS_END();
}
void h_symmetry(void) {   /* odd/even symmetry holds bit-exactly for every argument */
  IN(u16, a); IN(u8, which); VASSUME(!ISNANH(a) && which < 8); u16 n = a ^ 0x8000;
#define ODD(f) VASSERT(w_##f(n) == (w_##f(a) ^ 0x8000), #f " is odd: f(-x) = -f(x) bit-exactly")
#define EVEN(f) VASSERT(w_##f(n) == w_##f(a), #f " is even: f(-x) = f(x) bit-exactly")
  switch (which) { case 0: ODD(sin); break; case 1: EVEN(cos); break; case 2: ODD(tan); break; case 3: ODD(atan); break; case 4: ODD(sinh); break; case 5: EVEN(cosh); break; case 6: ODD(tanh); break; default: ODD(cbrt); break; }
  HARNESS_END();
}
#ifdef FN
#define CATW_(f) w_##f
#define CATW(f) CATW_(f)
void h_nan_one(void) { IN(u16, a); VASSUME(ISNANH(a)); VASSERT(ISNANH(CATW(FN)(a)), "Annex F: NaN in, NaN out"); HARNESS_END(); }
void h_sym_one(void) { IN(u16, a); VASSUME(!ISNANH(a)); u16 n = a ^ 0x8000;
#if ODDFN
  VASSERT(CATW(FN)(n) == (CATW(FN)(a) ^ 0x8000), "odd function: f(-x) = -f(x) bit-exactly for every argument");
#else
  VASSERT(CATW(FN)(n) == CATW(FN)(a), "even function: f(-x) = f(x) bit-exactly for every argument");
#endif
  HARNESS_END(); }
#endif
void h_pow_sign(void) {   /* Annex F: for a negative finite base, pow is negative for odd integer exponents, positive for even ones, NaN for non-integers */
  IN(u16, x); IN(u16, y); VASSUME(x > 0x8000 && x < 0xFC00 && (y & 0x7FFF) < 0x7C00 && (y & 0x7FFF) != 0);
  u32 ay = y & 0x7FFF; int e = (int)(ay >> 10) - 15;                    /* unbiased exponent of |y| */
  int is_int = e >= 10 || (e >= 0 && (ay & ((1u << (10 - e)) - 1)) == 0);
  int odd = e >= 0 && e <= 10 && is_int && ((((ay & 0x3FF) | 0x400) >> (10 - e)) & 1);
  u16 r = w_pow(x, y);
  if (!is_int) VASSERT(ISNANH(r), "pow(negative, non-integer) is NaN");
  else { VASSERT(!ISNANH(r), "pow(negative finite, integer) is a number"); VASSERT((r >> 15) == (u16)odd, "pow(negative, y) is negative exactly for odd integer y"); }
  WITNESS("large_odd_exponent", odd && e == 10);
  HARNESS_END();
}
/* sincos is documented to return the same results as sin and cos: decided as an equivalence of the two code paths for every argument */
void h_sincos(void) {
  IN(u16, a); u16 out[2] = {0, 0};
  w_sincos(a, out);
  u16 s = w_sin(a), c = w_cos(a);
  VASSERT((ISNANH(out[0]) && ISNANH(s)) || out[0] == s, "sincos: the sine output equals sin(x) bit for bit");
  VASSERT((ISNANH(out[1]) && ISNANH(c)) || out[1] == c, "sincos: the cosine output equals cos(x) bit for bit");
  WITNESS("small_argument", (a & 0x7fff) > 0x2500 && (a & 0x7fff) < 0x2900);
  HARNESS_END();
}
