// C09 wrappers: half math functions on raw bit patterns (software path, default rounding).
#include <cstdint>
#include <cstring>
#include <xtl/xhalf_float.hpp>
using half_float::half;
#define W extern "C" __attribute__((noinline))
static inline half mk(uint16_t b) { half h; std::memcpy(&h, &b, 2); return h; }
static inline uint16_t bits(half h) { return h.get_data(); }
#define U1(name) W uint16_t w_##name(uint16_t a) { return bits(half_float::name(mk(a))); }
U1(ceil) U1(floor) U1(trunc) U1(round) U1(rint) U1(nearbyint) U1(logb)
U1(exp) U1(exp2) U1(expm1) U1(log) U1(log10) U1(log2) U1(log1p) U1(sqrt) U1(cbrt) U1(sin) U1(cos) U1(tan) U1(asin) U1(acos) U1(atan) U1(sinh) U1(cosh) U1(tanh) U1(asinh) U1(acosh) U1(atanh) U1(erf) U1(erfc) U1(lgamma) U1(tgamma)
W int64_t w_lround(uint16_t a) { return half_float::lround(mk(a)); }
W int64_t w_lrint(uint16_t a) { return half_float::lrint(mk(a)); }
W int64_t w_llround(uint16_t a) { return half_float::llround(mk(a)); }
W int64_t w_llrint(uint16_t a) { return half_float::llrint(mk(a)); }
W uint16_t w_frexp(uint16_t a, int32_t* e) { int ex = 0; half r = half_float::frexp(mk(a), &ex); *e = ex; return bits(r); }
W uint16_t w_ldexp(uint16_t a, int32_t n) { return bits(half_float::ldexp(mk(a), n)); }
W uint16_t w_scalbn(uint16_t a, int32_t n) { return bits(half_float::scalbn(mk(a), n)); }
W uint16_t w_scalbln(uint16_t a, int64_t n) { return bits(half_float::scalbln(mk(a), static_cast<long>(n))); }
W uint16_t w_modf(uint16_t a, uint16_t* ip) { half i; half r = half_float::modf(mk(a), &i); *ip = bits(i); return bits(r); }
W int32_t w_ilogb(uint16_t a) { return half_float::ilogb(mk(a)); }
W uint16_t w_nextafter(uint16_t a, uint16_t b) { return bits(half_float::nextafter(mk(a), mk(b))); }
W uint16_t w_fdim(uint16_t a, uint16_t b) { return bits(half_float::fdim(mk(a), mk(b))); }
W uint16_t w_fmax(uint16_t a, uint16_t b) { return bits(half_float::fmax(mk(a), mk(b))); }
W uint16_t w_fmin(uint16_t a, uint16_t b) { return bits(half_float::fmin(mk(a), mk(b))); }
W uint16_t w_pow(uint16_t a, uint16_t b) { return bits(half_float::pow(mk(a), mk(b))); }
W uint16_t w_atan2(uint16_t a, uint16_t b) { return bits(half_float::atan2(mk(a), mk(b))); }
W uint16_t w_hypot(uint16_t a, uint16_t b) { return bits(half_float::hypot(mk(a), mk(b))); }
W void w_sincos(uint16_t a, uint16_t* out) { half s, c; half_float::sincos(mk(a), &s, &c); out[0] = bits(s); out[1] = bits(c); }
