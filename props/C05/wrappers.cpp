// C05 wrappers: xtl::variant<int, T1, T2> with lifetime-tracking alternatives whose copy/move operations consult the harness for a
// throw decision (the fault schedule is symbolic).  kinds: 0 int, 1 T1, 2 T2, 3 valueless (reached through the real API: a throwing emplace).
#include <cstdint>
#include <utility>
#include <new>
#include <xtl/xvariant.hpp>
extern "C" { void hook_ctor(int32_t cls, const void* p); void hook_dtor(int32_t cls, const void* p); int32_t hook_throw(int32_t site); }
struct TErr {};
struct Boom {};
// T1: every copy/move operation may throw (so not nothrow-move-constructible)
struct T1
{
    int v;
    explicit T1(int x) : v(x) { hook_ctor(1, this); }
    T1(Boom) : v(0) { throw TErr(); }
    T1(const T1& o) : v(o.v) { if (hook_throw(1)) throw TErr(); hook_ctor(1, this); }
    T1(T1&& o) : v(o.v) { if (hook_throw(2)) throw TErr(); hook_ctor(1, this); }
    T1& operator=(const T1& o) { if (hook_throw(3)) throw TErr(); v = o.v; return *this; }
    T1& operator=(T1&& o) { if (hook_throw(4)) throw TErr(); v = o.v; return *this; }
    ~T1() { hook_dtor(1, this); }
};
// T2: copy may throw, move is noexcept
struct T2
{
    int v;
    explicit T2(int x) : v(x) { hook_ctor(2, this); }
    T2(Boom) : v(0) { throw TErr(); }
    T2(const T2& o) : v(o.v) { if (hook_throw(5)) throw TErr(); hook_ctor(2, this); }
    T2(T2&& o) noexcept : v(o.v) { hook_ctor(2, this); }
    T2& operator=(const T2& o) { if (hook_throw(6)) throw TErr(); v = o.v; return *this; }
    T2& operator=(T2&& o) noexcept { v = o.v; return *this; }
    ~T2() { hook_dtor(2, this); }
};
inline bool operator==(const T1& a, const T1& b) { return a.v == b.v; } inline bool operator!=(const T1& a, const T1& b) { return a.v != b.v; }
inline bool operator<(const T1& a, const T1& b) { return a.v < b.v; } inline bool operator<=(const T1& a, const T1& b) { return a.v <= b.v; }
inline bool operator>(const T1& a, const T1& b) { return a.v > b.v; } inline bool operator>=(const T1& a, const T1& b) { return a.v >= b.v; }
inline bool operator==(const T2& a, const T2& b) { return a.v == b.v; } inline bool operator!=(const T2& a, const T2& b) { return a.v != b.v; }
inline bool operator<(const T2& a, const T2& b) { return a.v < b.v; } inline bool operator<=(const T2& a, const T2& b) { return a.v <= b.v; }
inline bool operator>(const T2& a, const T2& b) { return a.v > b.v; } inline bool operator>=(const T2& a, const T2& b) { return a.v >= b.v; }
static_assert(!std::is_nothrow_move_constructible<T1>::value && std::is_nothrow_move_constructible<T2>::value, "alternative kinds");
typedef xtl::variant<int, T1, T2> V;
#define W extern "C" __attribute__((noinline)) int64_t
// build a variant of the given kind/value in place; kind 3 = valueless via a throwing emplace
static inline void build(V& v, int64_t kind, int64_t val)
{
    if (kind == 0) v.emplace<0>(static_cast<int>(val));
    else if (kind == 1) v.emplace<1>(static_cast<int>(val));
    else if (kind == 2) v.emplace<2>(static_cast<int>(val));
    else { try { v.emplace<1>(Boom()); } catch (TErr&) {} }
}
struct idvis { int64_t operator()(int x) const { return (0LL << 20) | (x & 0xffff); } int64_t operator()(const T1& t) const { return (1LL << 20) | (t.v & 0xffff); } int64_t operator()(const T2& t) const { return (2LL << 20) | (t.v & 0xffff); } };
// out[0]=index (3 for npos) [1]=valueless [2]=holds bits [3]=get_if bits [4]=value via get_if [5]=visit result or -1 when it throws bad_variant_access [6]=get<wrong> throws [7]=xget/get<right> value
static inline void observe(V& v, int64_t* out)
{
    out[0] = v.index() == xtl::variant_npos ? 3 : static_cast<int64_t>(v.index());
    out[1] = v.valueless_by_exception();
    out[2] = (int64_t)xtl::holds_alternative<int>(v) | (int64_t)xtl::holds_alternative<T1>(v) << 1 | (int64_t)xtl::holds_alternative<T2>(v) << 2;
    out[3] = (int64_t)(xtl::get_if<0>(&v) != nullptr) | (int64_t)(xtl::get_if<1>(&v) != nullptr) << 1 | (int64_t)(xtl::get_if<T2>(&v) != nullptr) << 2;
    out[4] = xtl::get_if<0>(&v) ? *xtl::get_if<0>(&v) : xtl::get_if<1>(&v) ? xtl::get_if<1>(&v)->v : xtl::get_if<2>(&v) ? xtl::get_if<2>(&v)->v : -1;
    try { out[5] = xtl::visit(idvis(), v); } catch (xtl::bad_variant_access&) { out[5] = -1; }
    int thrown = 0;
    try { (void)xtl::get<0>(v); } catch (xtl::bad_variant_access&) { ++thrown; }
    try { (void)xtl::get<T1>(v); } catch (xtl::bad_variant_access&) { ++thrown; }
    try { (void)xtl::get<2>(v); } catch (xtl::bad_variant_access&) { ++thrown; }
    out[6] = thrown;
    out[7] = v.index() == 0 ? xtl::xget<int>(v) : v.index() == 1 ? xtl::xget<T1>(v).v : v.index() == 2 ? xtl::get<2>(static_cast<const V&>(v)).v : -1;
}
// one operation on (v, w); returns 1 if TErr escaped the operation, 2 other exception.  o1/o2/o3 observations of v, w and the constructed u (if any)
W w_op(int64_t k1, int64_t x1, int64_t k2, int64_t x2, int64_t op, int64_t arg, int64_t* o1, int64_t* o2, int64_t* o3)
{
    int64_t rc = 0;
    {
        V v, w; build(v, k1, x1); build(w, k2, x2);
        o3[0] = -1;
        try
        {
            switch (op)
            {
                case 0: { V u(v); observe(u, o3); } break;                       // copy construction
                case 1: { V u(std::move(v)); observe(u, o3); } break;            // move construction
                case 2: v = w; break;                                            // copy assignment
                case 3: v = std::move(w); break;                                 // move assignment
                case 4: v = static_cast<int>(arg); break;                        // converting assignment (trivial alternative)
                case 5: { T1 t(static_cast<int>(arg)); v = t; } break;           // converting assignment from an lvalue (copy)
                case 6: v = T2(static_cast<int>(arg)); break;                    // converting assignment from an rvalue (move)
                case 7: v.emplace<0>(static_cast<int>(arg)); break;
                case 8: v.emplace<T1>(static_cast<int>(arg)); break;
                case 9: v.emplace<2>(static_cast<int>(arg)); break;
                case 10: v.swap(w); break;
                case 11: { using std::swap; swap(v, w); } break;
                case 12: v.emplace<2>(Boom()); break;                            // constructor of the new alternative throws
                default: { V u(mpark::in_place_type_t<T1>(), static_cast<int>(arg)); observe(u, o3); } break;
            }
        }
        catch (TErr&) { rc = 1; }
        catch (...) { rc = 2; }
        observe(v, o1); observe(w, o2);
    }
    return rc;
}
// relational operators: bits == != < <= > >=
W w_rel(int64_t k1, int64_t x1, int64_t k2, int64_t x2)
{
    V v, w; build(v, k1, x1); build(w, k2, x2);
    return (int64_t)(v == w) | (int64_t)(v != w) << 1 | (int64_t)(v < w) << 2 | (int64_t)(v <= w) << 3 | (int64_t)(v > w) << 4 | (int64_t)(v >= w) << 5;
}
// visitation over two and three variants (27 cells); -1 when any is valueless (bad_variant_access)
struct vis3 { template <class A, class B, class C> int64_t operator()(const A& a, const B& b, const C& c) const { return idvis()(a) | (idvis()(b) << 21) | (idvis()(c) << 42); } };   // three (kind, value) fields
struct vis2 { template <class A, class B> int64_t operator()(const A& a, const B& b) const { return idvis()(a) | (idvis()(b) << 21); } };
W w_visit(int64_t k1, int64_t x1, int64_t k2, int64_t x2, int64_t k3, int64_t x3, int64_t* out)
{
    V a, b, c; build(a, k1, x1); build(b, k2, x2); build(c, k3, x3);
    try { out[0] = xtl::visit(vis2(), a, b); } catch (xtl::bad_variant_access&) { out[0] = -1; }
    try { out[1] = xtl::visit(vis3(), a, b, c); } catch (xtl::bad_variant_access&) { out[1] = -1; }
    return 0;
}

// ---- a variant with 258 trivial alternatives: the index type must distinguish every alternative from each other and from valueless ----
template <int I> struct Tag { int v; };
template <class S> struct mkbig;
template <std::size_t... I> struct mkbig<std::index_sequence<I...>> { using type = xtl::variant<Tag<static_cast<int>(I)>...>; };
typedef mkbig<std::make_index_sequence<258>>::type BigV;
W w_big(int64_t which, int64_t x, int64_t* out)
{
    BigV v;
    if (which == 0) v.emplace<254>(Tag<254>{static_cast<int>(x)}); else if (which == 1) v.emplace<255>(Tag<255>{static_cast<int>(x)});
    else if (which == 2) v.emplace<256>(Tag<256>{static_cast<int>(x)}); else v = Tag<257>{static_cast<int>(x)};
    out[0] = v.index() == xtl::variant_npos ? -1 : static_cast<int64_t>(v.index()); out[1] = v.valueless_by_exception();
    out[2] = xtl::get_if<254>(&v) ? xtl::get_if<254>(&v)->v : xtl::get_if<255>(&v) ? xtl::get_if<255>(&v)->v : xtl::get_if<256>(&v) ? xtl::get_if<256>(&v)->v : xtl::get_if<257>(&v) ? xtl::get_if<257>(&v)->v : -7;
    BigV w(v); out[3] = w.index() == xtl::variant_npos ? -1 : static_cast<int64_t>(w.index());
    out[4] = (int64_t)xtl::holds_alternative<Tag<0>>(v) | (int64_t)xtl::holds_alternative<Tag<1>>(v) << 1;
    return 0;
}

// ---- alternatives whose copy/move ASSIGNMENT is trivial (defaulted) while copy construction and destruction are user-provided: the variant must still
// go through destroy + construct when the alternative changes (it may only assign bytewise when every special member of every alternative is trivial) ----
struct TA { int v; explicit TA(int x) : v(x) { hook_ctor(3, this); } TA(const TA& o) : v(o.v) { hook_ctor(3, this); } TA& operator=(const TA&) = default; ~TA() { hook_dtor(3, this); } };
struct TB { int v; int pad; explicit TB(int x) : v(x), pad(7) { hook_ctor(4, this); } TB(const TB& o) : v(o.v), pad(7) { hook_ctor(4, this); } TB& operator=(const TB&) = default; ~TB() { hook_dtor(4, this); } };
static_assert(std::is_trivially_copy_assignable<TA>::value && !std::is_trivially_copy_constructible<TA>::value && !std::is_trivially_destructible<TB>::value, "alternative kinds");
typedef xtl::variant<int, TA, TB> VT;
static inline void obs_t(const VT& v, int64_t* o) { o[0] = v.valueless_by_exception() ? 3 : static_cast<int64_t>(v.index()); o[1] = xtl::get_if<0>(&v) ? *xtl::get_if<0>(&v) : xtl::get_if<1>(&v) ? xtl::get_if<1>(&v)->v : xtl::get_if<2>(&v) ? xtl::get_if<2>(&v)->v : -7; }
static inline void build_t(VT& v, int64_t kind, int64_t val) { if (kind == 0) v.emplace<0>(static_cast<int>(val)); else if (kind == 1) v.emplace<1>(static_cast<int>(val)); else v.emplace<2>(static_cast<int>(val)); }
W w_triv(int64_t k1, int64_t x1, int64_t k2, int64_t x2, int64_t op, int64_t* o1, int64_t* o2, int64_t* o3)
{
    {
        VT a, b; build_t(a, k1, x1); build_t(b, k2, x2);
        switch (op) {
            case 0: a = b; break;
            case 1: a = std::move(b); break;
            case 2: a.swap(b); break;
            case 3: { VT c(a); obs_t(c, o3); } break;
            default: a = TB(static_cast<int>(x2)); break;
        }
        obs_t(a, o1); obs_t(b, o2);
    }
    return 0;
}
