"""C05 - variant holds one live alternative or is valueless; lifetimes balance."""
ID = 'C05'
CLAIM = ('xtl::variant<int, T1, T2> (T1: every copy/move may throw; T2: throwing copy, nothrow move; int trivial) with a lifetime ledger and a symbolic fault schedule (a throw decision at EVERY element '
         'copy/move constructor and assignment): copy/move construction, copy/move/converting assignment, emplace (incl. a throwing constructor), swap (member and free), in_place construction from every '
         'pair of start states (each alternative or valueless); observers index/valueless/holds_alternative/get_if/get/xget/visit mutually consistent; relational operators; visit over 2 and 3 variants (all 64 cells); variant<int, TA, TB> with trivially assignable but non-trivially copyable/destructible alternatives (assignment, swap, copy) under the same ledger')
BOUNDS = {'quick': '3 alternatives (plus one 258-alternative variant of trivial types for index/valueless/get_if/copy), 2 variants per operation (3 for visit), one operation per query from every pair of start states, up to 10 throw decisions per operation; payload values 0..29999',
          'thorough': 'same, second SAT back end'}
NOT_COVERED = ['more than 3 alternatives / other alternative sets; recursive variants; sequences of two or more operations are covered through start states reachable by the API (every alternative, valueless) rather than enumerated',
               'variant_size/variant_alternative (compile time)']
ASSUMPTIONS = ['the element exception TErr is the only exception injected; allocation never fails']
INERT = ['_ZNSt9exceptionD2Ev']


def units(tier):
    return [Unit('variant', 'wrappers.cpp', ['harness.c'], inert=INERT, tv=[('h_op', []), ('h_rel', []), ('h_visit', []), ('h_triv', [])], tv_iters=20000)]


OPS = ['copy_ctor', 'move_ctor', 'copy_assign', 'move_assign', 'assign_int', 'assign_T1_lvalue', 'assign_T2_rvalue', 'emplace_int', 'emplace_T1', 'emplace_T2', 'swap', 'swap_free', 'emplace_throwing_ctor', 'in_place_ctor']


def obligations(tier):
    obs = []
    for i, name in enumerate(OPS):
        ob = Ob('op/' + name, 'variant', 'h_op', defines=['OPFIX=%d' % i], unwind=4, bound='all start states, all fault schedules', min_witnesses=1, timeout=900); ob.harness_unwind = 12; obs.append(ob)
    for h in ('h_rel', 'h_visit', 'h_big', 'h_triv'):
        ob = Ob(h[2:], 'variant', h, unwind=4, bound='all start states', min_witnesses=1, timeout=900); ob.harness_unwind = 12; obs.append(ob)
    if tier == 'thorough':
        ob = Ob('op/any@cadical', 'variant', 'h_op', unwind=4, backend='cadical', min_witnesses=3, timeout=3600, bound='symbolic operation selector'); ob.harness_unwind = 12; obs.append(ob)
    return obs
