/* C05 harnesses.  Lifetime ledger: every constructor/destructor of the instrumented alternatives reports (class, address); constructing
 * over a live address, destroying a non-live address or the wrong class, or a non-empty ledger at the end are assertion failures.
 * The throw decision of every element copy/move is a symbolic input (sched[]), i.e. the fault schedule is part of the quantifier. */
#include "harness.h"
#include "gen.h"
#define SLOTS 8
static const void* L_ptr[SLOTS]; static i32 L_cls[SLOTS]; static int L_bad_ctor, L_bad_dtor, L_overflow, L_ctors, L_dtors;
static u8 g_sched[10]; static int g_k, g_threw, g_asked;
void hook_ctor(i32 cls, const void* p) {
  L_ctors++;
  for (int i = 0; i < SLOTS; i++) if (L_ptr[i] == p) L_bad_ctor = 1;               /* constructed over a live object */
  for (int i = 0; i < SLOTS; i++) if (L_ptr[i] == 0) { L_ptr[i] = p; L_cls[i] = cls; return; }
  L_overflow = 1;
}
void hook_dtor(i32 cls, const void* p) {
  L_dtors++;
  for (int i = 0; i < SLOTS; i++) if (L_ptr[i] == p) { if (L_cls[i] != cls) L_bad_dtor = 1; L_ptr[i] = 0; return; }
  L_bad_dtor = 1;                                                                     /* destroyed something that is not alive */
}
i32 hook_throw(i32 site) { (void)site; g_asked++; if (g_k < 10 && g_sched[g_k++]) { g_threw = 1; return 1; } return 0; }
static void ledger_reset(const u8* sched) { for (int i = 0; i < SLOTS; i++) { L_ptr[i] = 0; L_cls[i] = 0; } L_bad_ctor = L_bad_dtor = L_overflow = L_ctors = L_dtors = 0; g_k = g_threw = g_asked = 0; for (int i = 0; i < 10; i++) g_sched[i] = sched[i]; }
#define LEDGER_OK() do { VASSERT(!L_bad_ctor, "no object is constructed over a live one"); VASSERT(!L_bad_dtor, "every destroyed object was alive and of that type (no double destruction, no use after destruction)"); \
    VASSERT(!L_overflow, "ledger capacity"); int live_ = 0; for (int i_ = 0; i_ < SLOTS; i_++) live_ += L_ptr[i_] != 0; VASSERT(live_ == 0 && L_ctors == L_dtors, "every constructed object is destroyed exactly once"); } while (0)
/* what the observers must report for a variant in abstract state (kind, value) */
#define OBS_OK(o, k, x, what) do { \
    VASSERT((o)[0] == (k) && (o)[1] == ((k) == 3), what ": index()/valueless_by_exception()"); \
    VASSERT((o)[2] == ((k) == 3 ? 0 : 1 << (k)) && (o)[3] == ((k) == 3 ? 0 : 1 << (k)), what ": holds_alternative / get_if agree with index()"); \
    if ((k) != 3) VASSERT((o)[4] == (x) && (o)[7] == (x), what ": get_if / get / xget return the held value"); \
    VASSERT((o)[5] == ((k) == 3 ? -1 : (((i64)(k)) << 20 | ((x) & 0xffff))), what ": visit dispatches to the held alternative (bad_variant_access when valueless)"); \
    VASSERT((o)[6] == ((k) == 3 ? 3 : 2), what ": get of another alternative throws bad_variant_access"); } while (0)
#define STATE_IS(o, k, x) ((o)[0] == (k) && ((k) == 3 || (o)[4] == (x)))

void h_op(void) {
  IN(u8, k1); IN(i32, x1); IN(u8, k2); IN(i32, x2); IN(u8, op0); IN(i32, arg); IN_ARR(u8, sched, 10);
#ifdef OPFIX
  u8 op = OPFIX; (void)op0;        /* one obligation per operation (concrete selector: the other operations are pruned by symbolic execution) */
#else
  u8 op = op0;
#endif
  VASSUME(k1 < 4 && k2 < 4 && op < 14); for (int i = 0; i < 10; i++) VASSUME(sched[i] < 2);
  VASSUME(x1 >= 0 && x1 < 30000 && x2 >= 0 && x2 < 30000 && arg >= 0 && arg < 30000);
  ledger_reset(sched);
  i64 o1[8], o2[8], o3[8];
  i64 rc = w_op(k1, x1, k2, x2, op, arg, (u64*)o1, (u64*)o2, (u64*)o3);
  LEDGER_OK();
  VASSERT(rc != 2, "only the injected element exception can escape");
  /* observers are mutually consistent whatever happened */
  { i64 ka = o1[0], kb = o2[0]; OBS_OK(o1, ka, o1[4], "first variant"); OBS_OK(o2, kb, o2[4], "second variant"); }
  /* requested (kind, value) of the operation, if it requests one */
  int rk = op == 4 || op == 7 ? 0 : (op == 5 || op == 8 || op == 13) ? 1 : (op == 6 || op == 9) ? 2 : -1;
  if (!g_threw && op != 12) {
    VASSERT(rc == 0, "nothing throws when no element operation throws");
    /* exactly what std::variant specifies */
    switch (op) {
      case 0: case 1: VASSERT(STATE_IS(o3, k1, x1), "copy/move construction yields the source's alternative and value"); VASSERT(op == 1 || STATE_IS(o1, k1, x1), "copy construction leaves the source unchanged"); break;
      case 2: VASSERT(STATE_IS(o1, k2, x2) && STATE_IS(o2, k2, x2), "copy assignment: target holds the source's alternative and value, source unchanged"); break;
      case 3: VASSERT(STATE_IS(o1, k2, x2), "move assignment: target holds the source's alternative and value"); break;
      case 4: case 5: case 6: case 7: case 8: case 9: VASSERT(STATE_IS(o1, rk, arg), "converting assignment / emplace: target holds the requested alternative and value"); VASSERT(STATE_IS(o2, k2, x2), "the other variant is untouched"); break;
      case 10: case 11: VASSERT(STATE_IS(o1, k2, x2) && STATE_IS(o2, k1, x1), "swap exchanges alternatives and values"); break;
      default: VASSERT(STATE_IS(o3, 1, arg) && STATE_IS(o1, k1, x1), "in_place_type construction"); break;
    }
  } else {
    /* some element constructor/assignment threw: each variant is valueless or holds an alternative whose value existed before or was requested */
#define LEGAL(o) (STATE_IS(o, 3, 0) || STATE_IS(o, k1, x1) || STATE_IS(o, k2, x2) || (rk >= 0 && STATE_IS(o, rk, arg)))
    VASSERT(LEGAL(o1) && LEGAL(o2), "after a throwing element operation each variant is valueless or holds a value that existed before the call or was requested by it");
    if (op == 12) { VASSERT(rc == 1 && STATE_IS(o1, 3, 0), "emplace whose constructor throws leaves the variant valueless"); VASSERT(STATE_IS(o2, k2, x2), "the other variant is untouched"); }
    if (op == 0 || op == 1) VASSERT(rc == 1 && o3[0] == -1, "a throwing copy/move constructor constructs nothing");
    if (op == 2 && rc == 1) VASSERT(STATE_IS(o2, k2, x2), "copy assignment never changes its source");
  }
  WITNESS("valueless_reached_by_throw", g_threw && o1[0] == 3 && k1 != 3); WITNESS("swap_throws", (op == 10 || op == 11) && g_threw); WITNESS("assign_valueless_source", op == 2 && k2 == 3 && k1 != 3);
  WITNESS("temp_then_move_keeps_target", op == 2 && g_threw && k2 == 2 && k1 == 1 && STATE_IS(o1, k1, x1)); WITNESS("second_throw_decision", g_threw && g_asked >= 2 && sched[0] == 0);
  HARNESS_END();
}
void h_rel(void) {
  IN(u8, k1); IN(i32, x1); IN(u8, k2); IN(i32, x2); u8 sched[10] = {0};
  VASSUME(k1 < 4 && k2 < 4 && x1 >= 0 && x1 < 30000 && x2 >= 0 && x2 < 30000);
  ledger_reset(sched);
  i64 r = w_rel(k1, x1, k2, x2);
  LEDGER_OK();
  /* [variant.relops]: valueless compares less than everything else and equal to valueless; otherwise index first, then value */
  int v1 = k1 == 3, v2 = k2 == 3;
  int eq = (v1 || v2) ? (v1 && v2) : (k1 == k2 && x1 == x2);
  int lt = v2 ? 0 : v1 ? 1 : (k1 < k2 || (k1 == k2 && x1 < x2));
  int gt = v1 ? 0 : v2 ? 1 : (k1 > k2 || (k1 == k2 && x1 > x2));
  VASSERT(r == (eq | (!eq) << 1 | lt << 2 | (lt || eq) << 3 | gt << 4 | (gt || eq) << 5), "relational operators compare index first, then the held values; valueless is smallest");
  HARNESS_END();
}
void h_visit(void) {
  IN(u8, k1); IN(i32, x1); IN(u8, k2); IN(i32, x2); IN(u8, k3); IN(i32, x3); u8 sched[10] = {0};
  VASSUME(k1 < 4 && k2 < 4 && k3 < 4 && x1 >= 0 && x1 < 20000 && x2 >= 0 && x2 < 20000 && x3 >= 0 && x3 < 20000);
  ledger_reset(sched);
  i64 out[2] = {0, 0};
  w_visit(k1, x1, k2, x2, k3, x3, (u64*)out);
  LEDGER_OK();
#define FLD(k, x) (((i64)(k) << 20) | ((x) & 0xffff))
  i64 e2 = (k1 == 3 || k2 == 3) ? -1 : (FLD(k1, x1) | FLD(k2, x2) << 21);
  i64 e3 = (k1 == 3 || k2 == 3 || k3 == 3) ? -1 : (FLD(k1, x1) | FLD(k2, x2) << 21 | FLD(k3, x3) << 42);
  VASSERT(out[0] == e2, "visit over two variants reaches the cell of their two alternatives with their values");
  VASSERT(out[1] == e3, "visit over three variants reaches the cell of their three alternatives with their values");
  WITNESS("valueless_argument", k2 == 3 && k1 != 3);
  HARNESS_END();
}
void h_big(void) {   /* 258 alternatives: indices 254..257 are distinct from each other, from small indices and from valueless */
  IN(u8, which); IN(i32, x); VASSUME(which < 4 && x >= 0);
  i64 out[5] = {0, 0, 0, 0, 0};
  w_big(which, x, (u64*)out);
  VASSERT(out[0] == 254 + which && out[1] == 0, "index() of a variant with 258 alternatives is the emplaced alternative, not valueless");
  VASSERT(out[2] == x && out[3] == 254 + which && out[4] == 0, "get_if, copy construction and holds_alternative agree for high alternative indices");
  HARNESS_END();
}

/* alternatives with trivial assignment operators but user-provided copy constructor / destructor (ledger classes 3, 4) */
void h_triv(void) {
  IN(u8, k1); IN(i32, x1); IN(u8, k2); IN(i32, x2); IN(u8, op); u8 sched[10] = {0, 0, 0, 0, 0, 0, 0, 0, 0, 0};
  VASSUME(k1 < 3 && k2 < 3 && op < 5 && x1 >= 0 && x1 < 30000 && x2 >= 0 && x2 < 30000);
  ledger_reset(sched);
  i64 o1[2] = {-9, -9}, o2[2] = {-9, -9}, o3[2] = {-9, -9};
  w_triv(k1, x1, k2, x2, op, (u64*)o1, (u64*)o2, (u64*)o3);
  LEDGER_OK();
  if (op == 0) VASSERT(o1[0] == k2 && o1[1] == x2 && o2[0] == k2 && o2[1] == x2, "copy assignment (trivially assignable alternatives): target holds the source's alternative and value, source unchanged");
  if (op == 1) VASSERT(o1[0] == k2 && o1[1] == x2, "move assignment (trivially assignable alternatives): target holds the source's alternative and value");
  if (op == 2) VASSERT(o1[0] == k2 && o1[1] == x2 && o2[0] == k1 && o2[1] == x1, "swap (trivially assignable alternatives) exchanges alternatives and values");
  if (op == 3) VASSERT(o3[0] == k1 && o3[1] == x1 && o1[0] == k1 && o1[1] == x1, "copy construction (trivially assignable alternatives)");
  if (op == 4) VASSERT(o1[0] == 2 && o1[1] == x2, "converting assignment (trivially assignable alternatives)");
  WITNESS("alternative_changes", op == 0 && k1 == 1 && k2 == 2);
  HARNESS_END();
}
