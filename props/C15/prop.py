"""C15 - cmp_* compare integers by mathematical value for every pair of integer types.

Every ordered pair of the integer types below gets one wrapper (calling the six real
xtl::cmp_* templates on operands converted from 64-bit symbolic words, so every value of
both types is covered) and one harness comparing against the comparison of the operands
sign/zero-extended to __int128.  No bound on values; the type list is enumerated.
"""
import os

ID = 'C15'
TYPES = [('i8', 'int8_t', True, 8), ('u8', 'uint8_t', False, 8), ('i16', 'int16_t', True, 16), ('u16', 'uint16_t', False, 16),
         ('i32', 'int32_t', True, 32), ('u32', 'uint32_t', False, 32), ('i64', 'int64_t', True, 64), ('u64', 'uint64_t', False, 64),
         ('ch', 'char', True, 8), ('sll', 'long long', True, 64), ('ull', 'unsigned long long', False, 64),
         ('sl', 'long', True, 64), ('ush', 'unsigned short', False, 16)]
FN = ['cmp_equal', 'cmp_not_equal', 'cmp_less', 'cmp_greater', 'cmp_less_equal', 'cmp_greater_equal']

BOUNDS = {'quick': 'no bound on operand values (full width of both types); type pairs enumerated: all 169 ordered pairs of ' + ', '.join(t[1] for t in TYPES),
          'thorough': 'as quick, plus a second solver back end (cadical) on every obligation'}
NOT_COVERED = ['integer types other than those listed (bool, wchar_t, char16_t, __int128)',
               'usability in constant expressions is settled by static_assert in the wrapper TU (compiler verdict, not solver)']
ASSUMPTIONS = ['char is signed on the x86-64 target (static_assert in wrappers)']


def wrappers():
    out = ['#include <cstdint>', '#include <xtl/xcompare.hpp>', 'static_assert(std::is_signed<char>::value, "char signedness");']
    for (a, ta, sa, wa) in TYPES:
        for (b, tb, sb, wb) in TYPES:
            body = ' | '.join('(static_cast<uint32_t>(xtl::%s(x, y)) << %d)' % (f, i) for i, f in enumerate(FN))
            out.append('extern "C" __attribute__((noinline)) uint32_t w_cmp_%s_%s(uint64_t a, uint64_t b) { %s x = static_cast<%s>(a); %s y = static_cast<%s>(b); return %s; }'
                       % (a, b, ta, ta, tb, tb, body))
    return '\n'.join(out) + '\n'


def probes(tier):
    """'usable in constant expressions': every function for every type pair inside a static_assert (the compiler's verdict)"""
    out = ['#include <cstdint>', '#include <xtl/xcompare.hpp>']
    for (a, ta, sa, wa) in TYPES:
        for (b, tb, sb, wb) in TYPES:
            out.append('static_assert(xtl::cmp_less(static_cast<%s>(1), static_cast<%s>(2)) && !xtl::cmp_equal(static_cast<%s>(1), static_cast<%s>(2)) && xtl::cmp_not_equal(static_cast<%s>(1), static_cast<%s>(2)) '
                       '&& xtl::cmp_less_equal(static_cast<%s>(1), static_cast<%s>(2)) && !xtl::cmp_greater(static_cast<%s>(1), static_cast<%s>(2)) && !xtl::cmp_greater_equal(static_cast<%s>(1), static_cast<%s>(2)), "constexpr");'
                       % ((ta, tb) * 6))
    return [('constexpr', '\n'.join(out) + '\n', 'cmp_* are usable in constant expressions for every type pair')]


def harness_text():
    out = ['#include "harness.h"', '#include "gen.h"']
    for (a, ta, sa, wa) in TYPES:
        for (b, tb, sb, wb) in TYPES:
            out.append('''void h_%(a)s_%(b)s(void) {
  IN(u64, a); IN(u64, b);
  i128 ma = (i128)(%(ta)s)a, mb = (i128)(%(tb)s)b;   /* the two mathematical integers */
  u32 r = w_cmp_%(a)s_%(b)s(a, b);
  u32 eq = r & 1, ne = (r >> 1) & 1, lt = (r >> 2) & 1, gt = (r >> 3) & 1, le = (r >> 4) & 1, ge = (r >> 5) & 1;
  VASSERT(eq == (ma == mb), "cmp_equal is mathematical equality");
  VASSERT(ne == (ma != mb), "cmp_not_equal is mathematical inequality");
  VASSERT(lt == (ma < mb), "cmp_less is mathematical <");
  VASSERT(gt == (ma > mb), "cmp_greater is mathematical >");
  VASSERT(le == (ma <= mb), "cmp_less_equal is mathematical <=");
  VASSERT(ge == (ma >= mb), "cmp_greater_equal is mathematical >=");
  VASSERT(lt + eq + gt == 1, "exactly one of less, equal, greater");
  VASSERT(!(ma < 0 && mb >= 0 && (eq || ge || gt)), "negative never equal/greater than non-negative");
  WITNESS("negative_vs_large", ma < 0 && mb > 0x7fffffff);
  WITNESS("equal_values", ma == mb);
  WITNESS("truncating_cast_region", (ma >> 8) != 0 && (mb >> 8) == 0);
  HARNESS_END();
}''' % dict(a=a, b=b, ta=ta.replace('int8_t', 'int8_t'), tb=tb))
    return '\n'.join(out) + '\n'


def units(tier):
    hp = os.path.join(BDIR, 'harness_gen.c')
    open(hp, 'w').write(harness_text())
    tv = [('h_%s_%s' % (a, b), []) for (a, b) in [('i8', 'u64'), ('u16', 'i64'), ('i32', 'u32'), ('ch', 'ull')]]
    return [Unit('cmp', wrappers, [hp], tv=tv, tv_iters=20000)]


def obligations(tier):
    obs = []
    for (a, ta, sa, wa) in TYPES:
        for (b, tb, sb, wb) in TYPES:
            mw = 2 if (sa or wa > 8) else 1
            obs.append(Ob('cmp_%s_%s' % (a, b), 'cmp', 'h_%s_%s' % (a, b), unwind=2, bound='all values of (%s, %s)' % (ta, tb), min_witnesses=1))
            if tier == 'thorough':
                obs.append(Ob('cmp_%s_%s@cadical' % (a, b), 'cmp', 'h_%s_%s' % (a, b), unwind=2, backend='cadical', bound='all values of (%s, %s)' % (ta, tb)))
    return obs
