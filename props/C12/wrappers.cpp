// C12 wrappers: iterator laws.  Every law is evaluated by the real (derived) operators of the xtl iterator bases and reported as indices
// relative to begin(); the harness compares with plain index arithmetic.  Containers are built with element i holding the value 100+i
// (bitsets: a caller supplied pattern), so a dereference identifies the element it designates.
#include <cstdint>
#include <cstddef>
#include <utility>
#include <iterator>
#include <xtl/xiterator_base.hpp>
#include <xtl/xdynamic_bitset.hpp>
#include <xtl/xoptional_sequence.hpp>
#include <xtl/xcomplex_sequence.hpp>
#define W extern "C" __attribute__((noinline)) void
// random access laws: positions a, b in [0,n], offset off with a+off in [0,n]; deref flags tell which dereferences are in range
template <class It> static inline int64_t order_bits(const It& ia, const It& ib, std::true_type) { return (int64_t)(ia < ib) | (int64_t)(ia <= ib) << 1 | (int64_t)(ia > ib) << 2 | (int64_t)(ia >= ib) << 3; }
// xcomplex_iterator defines no operator< (so none of < <= > >= compiles for it): its ordering bits are derived from operator- instead
template <class It> static inline int64_t order_bits(const It& ia, const It& ib, std::false_type) { auto d = ib - ia; return (int64_t)(d > 0) | (int64_t)(d >= 0) << 1 | (int64_t)(d < 0) << 2 | (int64_t)(d <= 0) << 3; }
template <bool ORDERED = true, class It, class V>
static inline void ra_laws(It begin, int64_t a, int64_t b, int64_t off, int64_t may_inc, int64_t may_dec, int64_t may_deref, V val, int64_t* out)
{
    It ia = begin + a, ib = begin + b;
    out[0] = (ia + off) - ia;                       // (it + n) - it == n
    out[1] = (off + ia) - begin;                    // n + it == it + n
    out[2] = ((ia + off) - off) - begin;            // it - n undoes it + n
    out[3] = ib - ia;
    out[4] = order_bits(ia, ib, std::integral_constant<bool, ORDERED>()) | (int64_t)(ia == ib) << 4 | (int64_t)(ia != ib) << 5;
    if (may_inc) { It t = ia; It old = t++; out[5] = old - begin; out[6] = t - begin; It v = ia; It& r = ++v; out[9] = (&r == &v); out[10] = v - begin; }
    if (may_dec) { It u = ia; It old = u--; out[7] = old - begin; out[8] = u - begin; It v = ia; It& r = --v; out[15] = (&r == &v); out[16] = v - begin; }
    It w = ia; It& r1 = (w += off); out[11] = w - begin; out[17] = (&r1 == &w); It& r2 = (w -= off); out[12] = w - begin; out[18] = (&r2 == &w);
    if (may_deref) { out[13] = val(ia[off]); out[14] = val(*(ia + off)); }
}
template <class It, class V>
static inline void bidir_laws(It begin, It end, int64_t a, int64_t b, int64_t may_inc, int64_t may_dec, V val, int64_t* out, int64_t* seq)
{
    It ia = begin, ib = begin; for (int64_t i = 0; i < a; ++i) ++ia; for (int64_t i = 0; i < b; ++i) ++ib;
    out[0] = (int64_t)(ia == ib) | (int64_t)(ia != ib) << 1;
    if (may_inc) { It t = ia; It old = t++; out[1] = val(*old); It nxt = ia; ++nxt; out[2] = (t == nxt); out[3] = (old == ia); }
    if (may_dec) { It t = ia; It old = t--; It prv = ia; --prv; out[4] = (t == prv); out[5] = (old == ia); out[6] = val(*t); }
    int64_t k = 0; for (It it = begin; it != end; ++it) seq[k++] = val(*it); out[7] = k;
    for (It it = end; it != begin;) { --it; seq[k++] = val(*it); } out[8] = k;
}
// ---- bitset iterators (view over caller blocks) ----
struct bitval { int64_t operator()(bool b) const { return b; } };
W w_bitset(uint8_t* blocks, uint64_t n, int64_t a, int64_t b, int64_t off, int64_t fi, int64_t fd, int64_t fr, int64_t cst, int64_t* out)
{
    xtl::xdynamic_bitset_view<uint8_t> v(blocks, n);
    if (cst) ra_laws(v.cbegin(), a, b, off, fi, fd, fr, bitval(), out); else ra_laws(v.begin(), a, b, off, fi, fd, fr, bitval(), out);
    out[19] = v.end() - v.begin(); out[20] = v.cend() - v.cbegin(); out[21] = v.rend() - v.rbegin();
}
// ---- optional vector / complex vector iterators (forward, const, reverse) ----
struct optval { template <class P> int64_t operator()(const P& p) const { return static_cast<int64_t>(p.value()) * 2 + (p.has_value() ? 1 : 0); } };
W w_optional(uint64_t n, int64_t a, int64_t b, int64_t off, int64_t fi, int64_t fd, int64_t fr, int64_t which, int64_t* out)
{
    xtl::xoptional_vector<int> v(n, 0);
    for (uint64_t i = 0; i < n; ++i) { v[i] = static_cast<int>(100 + i); v.has_value()[i] = (i % 2 == 0); }
    if (which == 0) ra_laws(v.begin(), a, b, off, fi, fd, fr, optval(), out);
    else if (which == 1) ra_laws(v.cbegin(), a, b, off, fi, fd, fr, optval(), out);
    else ra_laws(v.rbegin(), a, b, off, fi, fd, fr, optval(), out);
    out[19] = v.end() - v.begin(); out[20] = v.cend() - v.cbegin(); out[21] = v.rend() - v.rbegin();
    const xtl::xoptional_vector<int>& cv = v;      // the un-prefixed accessor pairs of a const sequence, and the c-prefixed reverse pair
    out[22] = cv.end() - cv.begin(); out[23] = cv.rend() - cv.rbegin(); out[24] = v.crend() - v.crbegin();
    out[25] = n ? optval()(*cv.rbegin()) - optval()(*(cv.end() - 1)) : 0;
}
struct cpxval { template <class P> int64_t operator()(const P& p) const { return static_cast<int64_t>(p.real()) * 1000 + static_cast<int64_t>(p.imag()); } };
W w_complex(uint64_t n, int64_t a, int64_t b, int64_t off, int64_t fi, int64_t fd, int64_t fr, int64_t which, int64_t* out)
{
    xtl::xcomplex_vector<double> v(n);
    for (uint64_t i = 0; i < n; ++i) { v.real()[i] = static_cast<double>(100 + i); v.imag()[i] = static_cast<double>(i); }
    if (which == 0) ra_laws<false>(v.begin(), a, b, off, fi, fd, fr, cpxval(), out);
    else if (which == 1) ra_laws<false>(v.cbegin(), a, b, off, fi, fd, fr, cpxval(), out);
    else ra_laws<false>(v.crbegin(), a, b, off, fi, fd, fr, cpxval(), out);
    out[19] = v.end() - v.begin(); out[20] = v.cend() - v.cbegin(); out[21] = v.rend() - v.rbegin();
    const xtl::xcomplex_vector<double>& cv = v;
    out[22] = cv.end() - cv.begin(); out[23] = cv.rend() - cv.rbegin(); out[24] = v.crend() - v.crbegin();
    out[25] = n ? cpxval()(*cv.rbegin()) - cpxval()(*(cv.end() - 1)) : 0;
}
// ---- stepping iterator over an int array, step >= 1 ----
struct intval { int64_t operator()(int x) const { return x; } };
W w_stepping(int32_t* arr, int64_t step, int64_t a, int64_t b, int64_t off, int64_t fi, int64_t fd, int64_t fr, int64_t* out)
{
    auto begin = xtl::make_stepping_iterator(arr, step);
    ra_laws(begin, a, b, off, fi, fd, fr, intval(), out);
}
// ---- key / value iterators over a map-like container whose iterators are pointers to pairs ----
struct FlatMap
{
    using key_type = int; using mapped_type = int; using value_type = std::pair<const int, int>;
    template <class P> struct it_t { using difference_type = std::ptrdiff_t; P* p; it_t(P* q) : p(q) {} template <class Q> it_t(const it_t<Q>& o) : p(o.p) {}
        it_t& operator++() { ++p; return *this; } it_t& operator--() { --p; return *this; } P& operator*() const { return *p; } P* operator->() const { return p; }
        bool operator==(const it_t& o) const { return p == o.p; } bool operator!=(const it_t& o) const { return p != o.p; } };
    using iterator = it_t<value_type>; using const_iterator = it_t<const value_type>;
    value_type* b; value_type* e;
    iterator begin() { return b; } iterator end() { return e; } const_iterator begin() const { return b; } const_iterator end() const { return e; } const_iterator cbegin() const { return b; } const_iterator cend() const { return e; }
};
W w_keyvalue(uint64_t n, int64_t a, int64_t b, int64_t fi, int64_t fd, int64_t which, int64_t* out, int64_t* seq)
{
    std::pair<const int, int> st[8] = {{10, 110}, {11, 111}, {12, 112}, {13, 113}, {14, 114}, {15, 115}, {16, 116}, {17, 117}};
    FlatMap m{st, st + n};
    if (which == 0) bidir_laws(xtl::xkey_iterator<FlatMap>(m.cbegin()), xtl::xkey_iterator<FlatMap>(m.cend()), a, b, fi, fd, intval(), out, seq);
    else if (which == 1) bidir_laws(xtl::xvalue_iterator<FlatMap>(m.begin()), xtl::xvalue_iterator<FlatMap>(m.end()), a, b, fi, fd, intval(), out, seq);
    else bidir_laws(xtl::xvalue_iterator<const FlatMap>(m.cbegin()), xtl::xvalue_iterator<const FlatMap>(m.cend()), a, b, fi, fd, intval(), out, seq);
}
// ---- the size_t extension base, instantiated by a minimal client iterator (as the repo's own test does) ----
class ext_iterator : public xtl::xrandom_access_iterator_base<ext_iterator, int>, public xtl::xrandom_access_iterator_ext<ext_iterator, int&>
{
public:
    using base = xtl::xrandom_access_iterator_base<ext_iterator, int>;
    using difference_type = std::ptrdiff_t; using reference = int&;
    using base::operator[]; using xtl::xrandom_access_iterator_ext<ext_iterator, int&>::operator[];
    explicit ext_iterator(int* p) : m_p(p) {}
    ext_iterator& operator++() { ++m_p; return *this; } ext_iterator& operator--() { --m_p; return *this; }
    ext_iterator& operator+=(difference_type n) { m_p += n; return *this; } ext_iterator& operator-=(difference_type n) { m_p -= n; return *this; }
    difference_type operator-(const ext_iterator& rhs) const { return m_p - rhs.m_p; }
    reference operator*() const { return *m_p; }
    bool operator==(const ext_iterator& rhs) const { return m_p == rhs.m_p; } bool operator<(const ext_iterator& rhs) const { return m_p < rhs.m_p; }
private:
    int* m_p;
};
W w_ext(int32_t* arr, int64_t a, int64_t b, int64_t off, int64_t fi, int64_t fd, int64_t fr, int64_t* out)
{
    ext_iterator begin(arr);
    ra_laws(begin, a, b, off, fi, fd, fr, intval(), out);
    ext_iterator ia = begin + a; std::size_t uo = static_cast<std::size_t>(off);     // size_t overloads (off >= 0 here)
    if (off >= 0) { out[22] = (ia + uo) - begin; out[23] = (uo + ia) - begin; out[24] = ((ia + uo) - uo) - begin; if (fr) out[25] = ia[uo]; }
}
