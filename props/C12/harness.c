/* C12 harnesses: SZ (container size) is concrete per obligation for the heap backed containers; positions, offsets, steps symbolic. */
#include "harness.h"
#include "gen.h"
#include <stdlib.h>
#ifndef SZ
#define SZ 5
#endif
/* expected values of the 19 random access outputs for begin-relative positions a, b, offset off; val(i) = value of element i */
#define RA_CHECK(out, a, b, off, fi, fd, fr, VAL) do { \
    VASSERT(out[0] == (off), "(it + n) - it == n"); \
    VASSERT(out[1] == (a) + (off), "n + it == it + n"); \
    VASSERT(out[2] == (a), "it - n undoes it + n"); \
    VASSERT(out[3] == (b) - (a), "b - a is the distance of the positions"); \
    VASSERT(out[4] == (((a) < (b)) | ((a) <= (b)) << 1 | ((a) > (b)) << 2 | ((a) >= (b)) << 3 | ((a) == (b)) << 4 | ((a) != (b)) << 5), "a < b exactly when b - a > 0; <= > >= are the reversals/negations; != is the negation of =="); \
    if (fi) { VASSERT(out[5] == (a) && out[6] == (a) + 1, "it++ returns the old position and advances"); VASSERT(out[9] == 1 && out[10] == (a) + 1, "++it returns itself, advanced"); } \
    if (fd) { VASSERT(out[7] == (a) && out[8] == (a) - 1, "it-- returns the old position and steps back"); VASSERT(out[15] == 1 && out[16] == (a) - 1, "--it returns itself, stepped back"); } \
    VASSERT(out[11] == (a) + (off) && out[12] == (a) && out[17] == 1 && out[18] == 1, "+= and -= move by n and return the iterator itself"); \
    if (fr) VASSERT(out[13] == VAL((a) + (off)) && out[14] == VAL((a) + (off)), "it[n] == *(it + n) == element at position it + n"); } while (0)
#define RA_INPUTS(N) IN(i64, a); IN(i64, b); IN(i64, off); VASSUME(a >= 0 && a <= (i64)(N) && b >= 0 && b <= (i64)(N) && a + off >= 0 && a + off <= (i64)(N) && off >= -(i64)(N) && off <= (i64)(N)); \
    i64 fi = a < (i64)(N), fd = a > 0, fr = a + off < (i64)(N); i64 out[26]; for (int i_ = 0; i_ < 26; i_++) out[i_] = -777; \
    WITNESS("negative_offset", off < 0); WITNESS("same_position", a == b && a > 0); WITNESS("at_end", a == (i64)(N) && (N) > 0);

void h_bitset(void) {
  IN(u64, n); IN_ARR(u8, src, 3); IN(u8, cst); VASSUME(n <= 24 && cst < 2);
  RA_INPUTS(n);
  u8* mem = HALLOC(3); for (int i = 0; i < 3; i++) mem[i] = src[i];
  w_bitset(mem, n, a, b, off, fi, fd, fr, cst, (u64*)out);
#define BITV(i) ((i64)((src[(i) / 8] >> ((i) % 8)) & 1))
  RA_CHECK(out, a, b, off, fi, fd, fr, BITV);
  VASSERT(out[19] == (i64)n && out[20] == (i64)n && out[21] == (i64)n, "end() - begin() == size() for forward, const and reverse iterators");
  WITNESS("crosses_block", a / 8 != (a + off) / 8);
  HARNESS_END();
}
void h_optional(void) {
  IN(u8, which); VASSUME(which < 3); RA_INPUTS(SZ);
  w_optional(SZ, a, b, off, fi, fd, fr, which, (u64*)out);
#define OPTV(i) (which == 2 ? (i64)((100 + (SZ - 1 - (i))) * 2 + ((SZ - 1 - (i)) % 2 == 0)) : (i64)((100 + (i)) * 2 + ((i) % 2 == 0)))
  RA_CHECK(out, a, b, off, fi, fd, fr, OPTV);
  VASSERT(out[19] == SZ && out[20] == SZ && out[21] == SZ, "end() - begin() == size()");
  VASSERT(out[22] == SZ && out[23] == SZ && out[24] == SZ && out[25] == 0, "const sequence: end() - begin(), rend() - rbegin(), crend() - crbegin() == size(); *rbegin() is the last element");
  HARNESS_END();
}
void h_complex(void) {
  IN(u8, which); VASSUME(which < 3); RA_INPUTS(SZ);
  w_complex(SZ, a, b, off, fi, fd, fr, which, (u64*)out);
#define CPXV(i) (which == 2 ? (i64)((100 + (SZ - 1 - (i))) * 1000 + (SZ - 1 - (i))) : (i64)((100 + (i)) * 1000 + (i)))
  RA_CHECK(out, a, b, off, fi, fd, fr, CPXV);
  VASSERT(out[19] == SZ && out[20] == SZ && out[21] == SZ, "end() - begin() == size()");
  VASSERT(out[22] == SZ && out[23] == SZ && out[24] == SZ && out[25] == 0, "const sequence: end() - begin(), rend() - rbegin(), crend() - crbegin() == size(); *rbegin() is the last element");
  HARNESS_END();
}
void h_stepping(void) {
  IN(i64, step); IN(u64, n); VASSUME(step >= 1 && step <= 4 && n <= 8);
  RA_INPUTS(n);
  i32* arr = (i32*)HALLOC(33 * 4); for (int i = 0; i < 33; i++) arr[i] = 1000 + i;       /* positions 0..n map to elements 0, step, ..., n*step <= 32 */
  w_stepping((u32*)arr, step, a, b, off, fi, fd, fr, (u64*)out);
#define STEPV(i) ((i64)(1000 + (i) * step))
  RA_CHECK(out, a, b, off, fi, fd, fr, STEPV);
  WITNESS("step_gt_1_backwards", step > 1 && b < a);
  HARNESS_END();
}
void h_ext(void) {
  IN(u64, n); VASSUME(n <= 8); RA_INPUTS(n);
  i32* arr = (i32*)HALLOC(9 * 4); for (int i = 0; i < 9; i++) arr[i] = 1000 + i;
  w_ext((u32*)arr, a, b, off, fi, fd, fr, (u64*)out);
#define EXTV(i) ((i64)(1000 + (i)))
  RA_CHECK(out, a, b, off, fi, fd, fr, EXTV);
  if (off >= 0) { VASSERT(out[22] == a + off && out[23] == a + off && out[24] == a, "size_t overloads of + and - agree with the difference_type ones"); if (fr) VASSERT(out[25] == EXTV(a + off), "size_t operator[] agrees"); }
  HARNESS_END();
}
void h_keyvalue(void) {
  IN(u64, n); IN(i64, a); IN(i64, b); IN(u8, which); VASSUME(n <= 8 && a >= 0 && a <= (i64)n && b >= 0 && b <= (i64)n && which < 3);
  i64 fi = a < (i64)n, fd = a > 0; i64 out[9]; i64 seq[17]; for (int i = 0; i < 9; i++) out[i] = -777;
  w_keyvalue(n, a, b, fi, fd, which, (u64*)out, (u64*)seq);
#define KV(i) ((i64)(which == 0 ? 10 + (i) : 110 + (i)))
  VASSERT(out[0] == ((a == b) | (a != b) << 1), "== compares positions, != is its negation");
  if (fi) VASSERT(out[1] == KV(a) && out[2] == 1 && out[3] == 1, "it++ returns the old position (designating the old element) and advances like ++it");
  if (fd) VASSERT(out[4] == 1 && out[5] == 1 && out[6] == KV(a - 1), "it-- returns the old position and steps back like --it");
  VASSERT(out[7] == (i64)n && out[8] == 2 * (i64)n, "forward and backward traversals visit size() elements");
  for (u64 i = 0; i < 8; i++) if (i < n) { VASSERT(seq[i] == KV(i), "forward traversal visits the keys/values in order"); VASSERT(seq[n + i] == KV(n - 1 - i), "backward traversal visits them in reverse order"); }
  WITNESS("empty_map", n == 0);
  HARNESS_END();
}
