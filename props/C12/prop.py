"""C12 - iterator bases and adaptors obey the random-access / bidirectional laws."""
ID = 'C12'
CLAIM = ('the derived operators of xbidirectional_iterator_base / xrandom_access_iterator_base / xrandom_access_iterator_ext as instantiated by the bitset iterators (const and non-const), the '
         'optional and complex vector iterators (forward, const, reverse), xstepping_iterator<int*> (steps 1..4), key/value iterators over a pointer-iterated map and a client iterator using the size_t '
         'extension: every law of the statement as an equation over symbolic positions a, b and offset n, compared with index arithmetic; dereferences identify the designated element')
BOUNDS = {'quick': 'bitset: size 0..24 bits (3 uint8_t blocks), any pattern; optional/complex vectors: sizes {0,1,5}; stepping: n <= 8 positions, step 1..4; map/ext: n <= 8; all positions a, b in [0,n] and offsets keeping a+n in [0,n]',
          'thorough': 'optional/complex vectors: sizes 0..8'}
NOT_COVERED = ['std::map as the underlying container of key/value iterators (its node iterators are out-of-line libstdc++ code); the xtl code is generic in the map type and is checked over a pointer-iterated map',
               'iterators of block types other than uint8_t (covered element-wise in C03); stepping iterators with non-positive steps']
ASSUMPTIONS = ['preconditions: positions inside [begin, end], increments only before end, decrements only after begin, dereference only of valid positions']
INERT = ['snprintf', '_ZNSt12out_of_rangeC[12]EPKc', '_ZNSt12out_of_rangeD[012]Ev', '_ZNSt13runtime_errorC[12]EPKc', '_ZNSt13runtime_errorD[012]Ev']


def units(tier):
    return [Unit('iter', 'wrappers.cpp', ['harness.c'], inert=INERT, rt=('verif_rt.c', 'libstdcxx_models.c'),
                 tv=[('h_bitset', []), ('h_stepping', []), ('h_keyvalue', []), ('h_ext', []), ('h_optional', ['SZ=5']), ('h_complex', ['SZ=3'])], tv_iters=5000)]


def obligations(tier):
    obs = []
    for h in ('h_bitset', 'h_stepping', 'h_ext', 'h_keyvalue'):
        ob = Ob(h[2:], 'iter', h, unwind=10, mem_unwind=40, bound='all positions/offsets within the size bound'); ob.harness_unwind = 40; obs.append(ob)
    sizes = [0, 1, 5] if tier == 'quick' else list(range(9))
    for h in ('h_optional', 'h_complex'):
        for n in sizes:
            ob = Ob('%s/size%d' % (h[2:], n), 'iter', h, defines=['SZ=%d' % n], unwind=n + 3, mem_unwind=8 * n + 12, bound='container size %d, all positions/offsets' % n, min_witnesses=1 if n else 0)
            ob.harness_unwind = 40; obs.append(ob)
    return obs
