"""C02 - fixed string stays inside its buffer; failed operations change nothing.

Same wrappers, harnesses and reference model as C01 (props/C01); here the deciding assertions are the ones tagged "C02:"
(exception class = model's, size and contents identical to the pre-state after length_error / out_of_range, second operand
never modified, destination buffers untouched beyond the copied characters) plus every cbmc memory-safety property on the
exact-size heap objects (string object, second string, argument array, result / destination).
"""
import os, importlib.util
ID = 'C02'
_spec = importlib.util.spec_from_file_location('c01_prop_for_c02', os.path.join(ROOT, 'props', 'C01', 'prop.py'))
c01 = importlib.util.module_from_spec(_spec); c01.Unit = Unit; c01.Ob = Ob; c01.ROOT = ROOT; c01.REPO = REPO
_spec.loader.exec_module(c01)
CLAIM = ('throwing policy: every mutating or position-taking operation of xbasic_fixed_string as one step from an arbitrary valid state (incl. lengths N-1 and N) with arbitrary 64-bit positions/counts '
         '(size()+count not overflowing): exception class equals the [basic.string] model (length_error / out_of_range), string unchanged after either exception, second operand untouched, and no access '
         'outside the exact-size heap objects holding the string, the argument array and the destination (cbmc pointer/bounds checks); packed, strlen and char16_t layouts')
BOUNDS = {'quick': 'as C01 quick restricted to the throwing policy and to operations that mutate, throw or take positions (see props/C01/prop.py selected())',
          'thorough': 'all such operations on <char,5,packed>, <char,5,strlen>, <char16_t,4,packed>, argument strings <= 6'}
NOT_COVERED = c01.NOT_COVERED + ['the -fno-exceptions build (error paths terminate): not built here', 'size()+count overflowing size_t (excluded by the property text)']
ASSUMPTIONS = c01.ASSUMPTIONS


def units(tier):
    c01.BDIR = BDIR
    return [u for u in c01.units(tier) if not u.name.startswith('big')]      # the large-capacity obligations are run by C01 (their 'C02:' assertion is decided there)


def obligations(tier):
    return c01.obligations(tier, focus='C02:')
